#!/usr/bin/env python3
"""Render the seeded-defect table of DESIGN.md section 9.7 from seeded/<name>/meta.json (+ README first heading)."""
import os, json, glob, re
VERIF = os.path.dirname(os.path.dirname(os.path.abspath(__file__)))
rows = []
for d in sorted(glob.glob(os.path.join(VERIF, "seeded", "C*"))):
    mp = os.path.join(d, "meta.json")
    if not os.path.exists(mp):
        continue
    m = json.load(open(mp))
    title = ""
    for f in glob.glob(os.path.join(d, "README*")):
        for l in open(f):
            if l.startswith("#"):
                title = re.sub(r"^#+\s*", "", l.strip())
                title = re.sub(r"^(C\d\d\s*[/-]?\s*(seed|change)?\s*[a-d]?\s*[-:—]+\s*)", "", title, flags=re.I)
                break
        break
    files = sorted({re.sub(r"^.*?/(pkg|pilot|security)/", r"\1/", l[6:].strip()) for l in open(os.path.join(d, "patch.diff")) if l.startswith("+++ b/")})
    det = m.get("detected_by") or []
    by = "; ".join("%s (%s)" % (x["property"], ", ".join(c.split(".", 1)[-1] for c in x["classes"][:3])) for x in det) or "**missed**" + (": " + m["miss_reason"] if m.get("miss_reason") else "")
    rows.append("| %s | %s | %s | %s |" % (m["name"], ", ".join(os.path.basename(f) for f in files), title[:110].replace("|", "/"), by))
table = "| seed | file | change | caught by (quick tier, classes) |\n|---|---|---|---|\n" + "\n".join(rows)
import sys
if "--write" in sys.argv:
    dp = os.path.join(VERIF, "DESIGN.md")
    d = open(dp).read()
    a, b = d.index("<!-- seedtable:begin -->") + len("<!-- seedtable:begin -->"), d.index("<!-- seedtable:end -->")
    open(dp, "w").write(d[:a] + "\n" + table + "\n" + d[b:])
else:
    print(table)
