#!/usr/bin/env python3
"""Regenerate MANIFEST.json from bin/registry.py (single source of truth)."""
import json, os, sys
VERIF = os.path.dirname(os.path.dirname(os.path.abspath(__file__)))
sys.path.insert(0, os.path.join(VERIF, "bin"))
from registry import PROPERTIES, NOT_APPLICABLE, HOOK_COMMITS

BASELINE_OFF = "cd /repo && export GOFLAGS=-mod=mod && go build ./... && go test -vet=off -count=1 -timeout 25m ./..."

m = {
    "version": 1,
    "setup_cmd": "bin/check build",
    "hooks": {
        "guard": "verif",
        "enable": "go1.26.8 test -c -tags verif (GOTOOLCHAIN=local GOFLAGS=-mod=mod GOPROXY=off) from the harness module /verif/sim, which has 'replace istio.io/istio => /repo'; C18 additionally uses a -overlay generated from the current secretcache.go",
        "baseline_off_cmd": BASELINE_OFF,
        "source_commits": HOOK_COMMITS,
        "add_only": True,
    },
    "engines": [
        {"name": "sim", "path": "sim/", "serves_properties": sorted(PROPERTIES.keys()),
         "kind_free_text": "deterministic simulation with fault injection: seeded choice tape, testing/synctest virtual time, simulator-owned transport/stubs, yield-hook scheduler, worker processes + orchestrator (bin/check) with tape minimisation and replay"},
    ],
    "checks": [],
    "not_applicable": NOT_APPLICABLE,
    "notes": "bin/check <id> quick|thorough; bin/check replay <file>; bin/check determinism <id> [n]. Exit 0 held / 1 VIOLATION / 2 harness or build trouble. Known findings: known-findings.json.",
}
for pid in sorted(PROPERTIES):
    s = PROPERTIES[pid]
    m["checks"].append({
        "property_id": pid,
        "quick_cmd": "bin/check %s quick" % pid,
        "thorough_cmd": "bin/check %s thorough" % pid,
        "evidence_file": "evidence/%s.json" % pid,
        "replay_cmd_template": "bin/check replay {path}",
        "engine": "sim",
        "level_claimed": {"category": "exploration", "text": s["level_text"], "design_ref": s["design_ref"]},
        "level_note": s["level_note"],
        "technique": s["technique"],
    })
with open(os.path.join(VERIF, "MANIFEST.json"), "w") as f:
    json.dump(m, f, indent=1)
print("MANIFEST.json written: %d checks, %d not applicable" % (len(m["checks"]), len(NOT_APPLICABLE)))
