"""Generate the -overlay for the node-agent check from the CURRENT secretcache.go (nothing is committed to /repo).
Three mechanical substitutions; if an anchor is missing the build fails (exit 2), it never guesses."""
import json, os, sys

SRC = os.path.join(os.environ.get("VERIF_REPO", "/repo"), "security/pkg/nodeagent/cache/secretcache.go")
VERIF = os.path.dirname(os.path.dirname(os.path.abspath(__file__)))
SUBS = [
    ("generateMutex sync.Mutex", "generateMutex simMutex", 1),
    ("fsnotify.NewWatcher()", "verifNewWatcher()", 1),
    ("_ = sc.certWatcher.Close()", "verifCloseWatcher(sc.certWatcher)", 1),
    ('\t"math/rand/v2"\n', "", 1),
    ("rand.Float64()", "verifRandFloat64()", 1),
    ("rand.IntN(", "verifRandIntN(", 1),
    # a yield point between obtaining the new certificate and storing it in the cache (the generate lock is a
    # channel lock in this build, so parking here with the lock held is a durable block for the waiters)
    ("\tsc.registerSecret(*ns)\n", "\tVerifYield(\"agent.beforeRegisterSecret\")\n\tsc.registerSecret(*ns)\n", 1),
]


def generate(build_dir):
    s = open(SRC).read()
    for old, new, cnt in SUBS:
        if s.count(old) != cnt:
            sys.stderr.write("BUILD FAILED (agent overlay): anchor %r found %d times, expected %d\n" % (old, s.count(old), cnt))
            sys.exit(2)
        s = s.replace(old, new)
    d = os.path.join(build_dir, "agent-overlay-%d" % os.getpid())
    os.makedirs(d, exist_ok=True)
    gen = os.path.join(d, "secretcache.go")
    open(gen, "w").write(s)
    add = os.path.join(d, "zz_verif_sim.go")
    open(add, "w").write(open(os.path.join(VERIF, "sim", "agentoverlay", "zz_verif_sim.go.txt")).read())
    ov = os.path.join(d, "overlay.json")
    json.dump({"Replace": {SRC: gen, os.path.join(os.path.dirname(SRC), "zz_verif_sim.go"): add}}, open(ov, "w"))
    return ov
