"""Registry: property -> sub-checks (worker check names), budgets, evidence texts."""

WIS_REAL = ["xds.DiscoveryServer (debounce, PushQueue, sendPushes, Stream/StreamDeltas, generators)", "model.PushContext/SidecarScope/XdsCache/EndpointIndex",
            "memory config store + krt", "ServiceEntry controller", "aggregate registry", "kube registry controller + client-go fake informers"]
WIS_STUB = ["Kubernetes API server (client-go fake clientset)", "gRPC transport (in-memory simulator-owned stream)", "Envoy/ztunnel (protocol client models)", "clock (testing/synctest virtual time)"]

HOOK_COMMITS = []

PURE = "pure function of its input (quantified over inputs/configurations/programs only): no schedule, clock, fault, message order, crash point or history for a simulator to control; see DESIGN.md section 5"
NOT_APPLICABLE = [
    {"property_id": "C07", "reason": "visibility/import is a total function of one PushContext snapshot and a proxy; " + PURE + "; the history-dependent half is decided under C01"},
    {"property_id": "C08", "reason": "AuthorizationPolicy -> RBAC is a pure translation needing an RBAC interpreter oracle; " + PURE},
    {"property_id": "C09", "reason": "certificate contents are a function of (CSR, metadata, authentication outcome, CA config, one clock reading); " + PURE},
    {"property_id": "C10", "reason": "effective mTLS mode is a pure function of the PeerAuthentication set and a workload; " + PURE + "; propagation of a policy change is C01/C06"},
    {"property_id": "C12", "reason": "VirtualService -> routes is a pure translation needing a route interpreter oracle; " + PURE},
    {"property_id": "C14", "reason": "well-formedness of one snapshot is a pure function of (configuration, proxy); " + PURE + "; the 'requested names are always answered' clause is decided under C05"},
    {"property_id": "C19", "reason": "finite decision table and a pure template merge; " + PURE},
    {"property_id": "C20", "reason": "iptables rule text is a pure function of the capture configuration; " + PURE},
]
# properties planned in DESIGN.md whose check is not built yet (removed from here as they land)
for _p, _sec in [("C11", "4.7"), 
                 ("C15", "4.9"), ("C16", "4.10"), ("C18", "4.12")]:
    NOT_APPLICABLE.append({"property_id": _p, "reason": "not claimed yet: simulation target (DESIGN.md section %s) whose check is still being built; not a not-applicable verdict" % _sec})

PROPERTIES = {
    "C06": {
        "design_ref": "4.6",
        "technique": "deterministic simulation of the whole control plane with cache-stress settings (tiny LRU, explicit index flush, several proxies differing in one attribute) and yield hooks on the EDS cache miss path; oracle = cache-disabled fresh replica",
        "level_text": "seeded search over histories x proxy sets (pairwise differing in locality, network, cluster id, version, DNS flags, labels, namespace) x cache sizes x interleavings in which a generator that missed the cache is frozen with its freshly built value while mutations, invalidations, flushes and other proxies' reads run; at checkpoints every held resource must equal what a cache-disabled control plane generates for that proxy; sampling, not proof",
        "level_note": "trusted: testing/synctest, FakeDiscoveryServer assembly, client model, the two yield hooks in eds.go (no lock held there); CDS/RDS/SDS cache paths are exercised without intra-generation freeze points (transport-level interleavings only)",
        "rule": "each run = 2-4 proxies drawn from 9 single-attribute variants, cache size in {2, 8, default}, up to 60 steps from {mutate, gap, deliver, flush index, checkpoint, release frozen generator}; distinct = distinct schedule signature; non-trivial = a mutation was applied while a generator was frozen on its cache-miss path",
        "real": WIS_REAL, "stub": WIS_STUB,
        "assumptions": ["equality with a cache-disabled instance of the same code: a generator input missing from a key is visible only when two proxies of the run differ in that input"],
        "subchecks": [
            {"check": "c06", "what": "cache invisibility vs cache-disabled replica", "nontrivial": "mutation while a generator was frozen between cache miss and Add",
             "budget": {"quick": 75, "thorough": 900}, "seeds": {"quick": 1, "thorough": 3}, "chunk": 15, "replay_attempts": 3,
             "must_probe": ["mutation_while_generator_frozen", "frozen_generator_released", "stale_writer_scenario", "checkpoints"]},
        ],
    },
    "C04": {
        "design_ref": "4.4",
        "technique": "deterministic simulation: closed loop between the real per-connection goroutines and a conformant client model (SotW and delta) with an independent obligation model, pushes/requests/NACKs/resubscriptions interleaved by the simulator; separate non-conformant request generator for the crash clause",
        "level_text": "seeded search over interleavings of client requests (ACK, NACK, stale nonce, added names, duplicates, unsubscribe/resubscribe) with server pushes; phase A checks liveness obligations and the server's subscription record under concurrency, phase B injects one protocol event at a time into a quiet system where 'answered or silent' is exactly attributable; c04x sends arbitrary request sequences and only demands survival; sampling, not proof",
        "level_note": "trusted: testing/synctest, the obligation model (written from the xDS protocol text: must-answer = request adding names; must-stay-silent = repeated ACK, NACK, stale nonce; everything else free), client models; a panic in an istio goroutine kills the worker and is attributed to the run by the orchestrator",
        "rule": "c04: 1 client, 5-45 phase-A steps from {mutate, gap, deliver response, reject response, deliver request, unsubscribe+resubscribe, duplicate request}, then 3-12 attributable phase-B events; c04x: 3-27 arbitrary requests over 9 type URLs x 4 nonce kinds x name sets x error_detail; distinct = distinct schedule signature; non-trivial = a client request was queued while a server response was parked (c04) / a rejection arrived for a type with no prior response (c04x)",
        "real": WIS_REAL, "stub": WIS_STUB,
        "assumptions": ["silence is only asserted in the quiet phase (with concurrent pushes a response cannot be attributed to a request)"],
        "subchecks": [
            {"check": "c04", "what": "conformant client, obligation model, record equality, no push loop", "nontrivial": "request queued while a response was parked",
             "budget": {"quick": 45, "thorough": 600}, "seeds": {"quick": 1, "thorough": 3}, "chunk": 20,
             "must_probe": ["request_races_push", "event_add_name", "event_nack", "event_stale_nonce"]},
            {"check": "c04x", "what": "arbitrary request sequences: no crash, no deadlock", "nontrivial": "rejection for a type with no prior response",
             "budget": {"quick": 25, "thorough": 300}, "seeds": {"quick": 1, "thorough": 3}, "chunk": 20,
             "must_probe": ["nack_without_prior_response", "responses"]},
        ],
    },
    "C05": {
        "design_ref": "4.5",
        "technique": "deterministic simulation of the whole control plane with fault injection on the simulator-owned transport: stream cut at any step (incl. mid-push), send errors, client crash+reconnect with retained state, istiod restart over surviving API-server state, second live replica; fresh-replica and nothing-stays-warming oracles once faults stop",
        "level_text": "seeded search over histories x cut points x missed changes x reconnect targets (same instance, other replica, restarted instance) for SotW and delta clients; after faults stop every client must equal a fresh replica and every re-sent subscription must have been answered on its current stream; sampling, not proof",
        "level_note": "trusted: testing/synctest, FakeDiscoveryServer assembly, client models (what a client retains across streams is modelled after Envoy: versions, nonces, names, initial_resource_versions); the transport stub cancels the stream context when the server handler returns, as gRPC does; ztunnel not covered yet",
        "rule": "each run = 1-3 clients, 1-2 live replicas, up to 60 steps (quick) drawn from {mutate, gap, deliver response, deliver request, send error, cut, reconnect, restart}; distinct = distinct schedule signature; non-trivial = a stream was cut while a response of a push was parked in Send, or a mutation happened while some client was disconnected",
        "real": WIS_REAL, "stub": WIS_STUB,
        "assumptions": ["both replicas see every mutation (one API server); only delivery timing differs"],
        "subchecks": [
            {"check": "c05", "what": "reconnect resynchronisation under transport faults and restarts", "nontrivial": "cut mid-push or mutation while a client was away",
             "budget": {"quick": 60, "thorough": 900}, "seeds": {"quick": 1, "thorough": 3}, "chunk": 20, "replay_attempts": 3,
             "must_probe": ["cut_mid_push", "mutation_while_disconnected", "checkpoints"]},
        ],
    },
    "C03": {
        "design_ref": "4.3",
        "technique": "deterministic simulation of the whole control plane with paired clients (one state-of-the-world, one delta, identical node) on the same instance and history; equality of held sets at checkpoints",
        "level_text": "seeded search over config histories x debounce batchings x delivery interleavings; the delta twin applies every resources/removed_resources and must hold exactly what the SotW twin holds (reachable EDS/RDS) at every checkpoint; sampling, not proof",
        "level_note": "trusted: testing/synctest, FakeDiscoveryServer assembly, the two client models (independent protocol halves: an error in one of them shows up as a false alarm, not as a miss); ztunnel types are not covered yet (no SotW form; planned against the fresh wildcard snapshot)",
        "rule": "each run = 1-2 twin pairs drawn from 5 proxy identities, 2-15 mutations over up to 13 kinds, random gaps and partial deliveries, client-initiated EDS unsubscribe+resubscribe; distinct = distinct schedule signature; non-trivial = the delta twin received at least one removed_resources entry",
        "real": WIS_REAL, "stub": WIS_STUB,
        "assumptions": ["ECDS is compared only when both twins subscribe to it (delta never removes ECDS by design)"],
        "subchecks": [
            {"check": "c03", "what": "delta twin == SotW twin at checkpoints", "nontrivial": "delta twin saw removed_resources",
             "budget": {"quick": 60, "thorough": 900}, "seeds": {"quick": 1, "thorough": 3}, "chunk": 20, "replay_attempts": 3,
             "must_probe": ["delta_removed_resources", "client_resubscribe", "checkpoints"]},
        ],
    },
    "C17": {
        "design_ref": "4.11",
        "technique": "deterministic simulation: replica-divergence search - several real control-plane instances in one virtual-time bubble receive the same seeded object set in independently permuted insertion orders; identical clients; byte and order equality, plus repeated forced regeneration inside one instance",
        "level_text": "seeded search over object sets (frequent creation-time ties, several owners of one host) x insertion permutations x clients; every resource and the resource order of every full response must be identical across instances and across forced regenerations (each of which re-samples Go's map iteration order); sampling, not proof",
        "level_note": "trusted: testing/synctest, FakeDiscoveryServer assembly, client model; Go's per-range random map order is the sampled source of nondeterminism and is NOT controlled by the simulator, so a violation is probabilistic per run and its replay is retried (replay_attempts)",
        "rule": "each run = one seeded object set (3-14 objects over up to 13 kinds, 3 possible creation times) + 1-2 clients; replica a is regenerated 3 times, 1-2 more replicas are built from permuted insertion orders; distinct = distinct schedule signature; non-trivial = at least one replica pair compared",
        "real": WIS_REAL, "stub": WIS_STUB,
        "assumptions": ["order of resources is compared for full (wildcard) responses; partial EDS/RDS responses are compared by name and bytes"],
        "subchecks": [
            {"check": "c17", "what": "replica divergence / regeneration determinism", "nontrivial": "a replica pair was compared",
             "budget": {"quick": 60, "thorough": 900}, "seeds": {"quick": 1, "thorough": 3}, "chunk": 20, "replay_attempts": 12,
             "must_probe": ["replica_pairs", "regenerations"]},
        ],
    },
    "C01": {
        "design_ref": "4.1",
        "technique": "deterministic simulation of the whole control plane (virtual time, simulator-owned xDS streams, seeded config histories and debounce batching) with a fresh-replica oracle at checkpoints",
        "level_text": "seeded search over config histories x client sets x debounce batchings on the real istiod assembly inside one virtual-time bubble; at checkpoints every client's held resources are compared byte-for-byte with what a cold instance built from the final state sends an identical client; sampling, not proof",
        "level_note": "trusted: testing/synctest, the repository's own FakeDiscoveryServer assembly, the Envoy-like client models (a model error cancels: both sides of the comparison run the same model), equality is with a cold instance of the same code so a rule wrong in both is invisible",
        "rule": "each run = 1-3 clients (sidecar/router, SotW or delta, with/without Sidecar scope, DNS capture), 2-15 (quick) create/update/delete mutations over up to 13 config kinds with random gaps relative to the debounce window and random partial delivery; distinct = distinct schedule signature; non-trivial = in prefix mode some mutation produced no response for some subscribed root type of some client (push skipped or narrowed)",
        "real": WIS_REAL, "stub": WIS_STUB,
        "assumptions": ["kinds outside the universe (Gateway API, Ingress, MCS, k8s objects) are not exercised by this check", "quiescence = no parked send, no queued request, push queue empty, committed == inbound, stable across an advance > debounceMax"],
        "subchecks": [
            {"check": "c01", "what": "history-independent convergence, fresh-replica oracle (prefix mode in half of the runs)",
             "nontrivial": "a mutation was followed by a checkpoint in which some client got no response for some subscribed root type",
             "budget": {"quick": 60, "thorough": 900}, "seeds": {"quick": 1, "thorough": 3}, "chunk": 20, "replay_attempts": 3,
             "must_probe": ["push_skipped_or_narrowed", "checkpoints"]},
        ],
    },
    "C13": {
        "design_ref": "4.8",
        "technique": "deterministic simulation: seeded interleaving of registry calls on the real EndpointIndex through a yield hook inside UpdateServiceEndpoints; linearizability of the recorded history against a sequential model (porcupine)",
        "level_text": "seeded search over interleavings of concurrent registry operations (including the window between shard lookup and shard lock) on the real endpoint index; each history is checked for linearizability against a small sequential reference model; sampling, not proof",
        "level_note": "trusted: porcupine v1.3.0, the sequential reference model (written from the statement; push type compared as 'at least as strong'), testing/synctest quiescence, the single yield hook as the only intra-operation preemption point (all other index operations are atomic under the index lock)",
        "rule": "each run = 2-4 registries with generated programs over 1-2 services; the simulator picks which parked registry runs next; distinct = distinct schedule signature; non-trivial = some operation ran while an update was parked between lookup and lock",
        "real": ["model.EndpointIndex (UpdateServiceEndpoints, DeleteServiceShard, DeleteShard, PruneShard, Shardz)"] + WIS_REAL,
        "stub": ["registries (harness tasks issuing the calls real registries make)", "XdsCache (model.DisabledCache; c13a only)"] + WIS_STUB,
        "assumptions": ["index operations other than UpdateServiceEndpoints are atomic under the index lock", "reads compare non-empty per-registry reports only (existence of an empty shard set and the accumulated service-account set are bookkeeping)",
                        "c13b restricted domain: single network, default locality LB, PILOT_AUTO_SEND_UNHEALTHY_ENDPOINTS off (unhealthy endpoints are never 'explicitly allowed'), registries follow SvcUpdate/RemoveShard with the push request real registries send"],
        "subchecks": [
            {"check": "c13b", "what": "whole istiod: 2-3 simulated registries speak XDSUpdater (EDSUpdate/EDSCacheUpdate/SvcUpdate/RemoveShard) under own shard keys, interleaved incl. inside UpdateServiceEndpoints; EDS held by a proxy == union of last healthy reports per port/subset, locality weights consistent",
             "nontrivial": "an operation ran while an update was parked between shard lookup and shard lock",
             "budget": {"quick": 30, "thorough": 400}, "seeds": {"quick": 1, "thorough": 3}, "chunk": 20,
             "must_probe": ["op_while_update_parked", "nonempty_clusters_compared"]},
            {"check": "c13a", "what": "EndpointIndex linearizability under registry interleavings",
             "nontrivial": "an operation ran while an update was parked between shard lookup and shard lock",
             "budget": {"quick": 25, "thorough": 300}, "seeds": {"quick": 1, "thorough": 3}, "chunk": 300,
             "must_probe": ["op_while_update_parked", "concurrent_updates_same_service"]},
        ],
    },
    "C02": {
        "design_ref": "4.2",
        "technique": "deterministic simulation: seeded schedule search over PushQueue/debounce operations on virtual time, history oracle (coverage, exact union, no aliasing, single flight, bounded liveness)",
        "level_text": "seeded search over interleavings of the real PushQueue and debounce code under a simulator-owned scheduler and virtual clock; every run is checked against an independent coverage/merge-algebra oracle; sampling, not proof",
        "level_note": "trusted: testing/synctest virtual time and quiescence detection, the harness oracle (expected union/forced/newest computed independently), quiescent-point determinism (self-tested with bin/check determinism)",
        "rule": "each run = one seeded schedule of the listed operations chosen step by step from the sorted enabled set; distinct = distinct schedule signature (hash of the action sequence); non-trivial per sub-check (see per_check.*.nontrivial_rule)",
        "real": ["xds.PushQueue", "model.PushRequest.Merge/CopyMerge", "xds.debounce (via verif-tagged accessor)"] + WIS_REAL,
        "stub": ["pushFn (parks until the simulator releases it; c02a only)", "clock (testing/synctest virtual time)"] + WIS_STUB,
        "assumptions": ["PushQueue operations are atomic under its single lock, so ordering whole operations reaches every interleaving",
                        "virtual time (testing/synctest); goroutines woken in one step run under the Go scheduler (quiescent-point determinism, self-tested)"],
        "subchecks": [
            {"check": "c02a", "what": "real debounce loop on virtual time: arrivals at/around timer expiry and during a running push; exactly-once coverage, union/forced, single flight, bounded liveness",
             "nontrivial": "a notification arrived while a debounced push was running",
             "budget": {"quick": 20, "thorough": 300}, "seeds": {"quick": 1, "thorough": 3}, "chunk": 300,
             "must_probe": ["event_while_push_running", "merged_push"]},
            {"check": "c02c", "what": "whole istiod, PushThrottle 1-2: send errors and stream cuts while pushes are outstanding; pipeline must drain and survivors must get later updates",
             "nontrivial": "a fault fired while a push for that client was outstanding (parked in Send, or queued/processing)",
             "budget": {"quick": 40, "thorough": 600}, "seeds": {"quick": 1, "thorough": 3}, "chunk": 20, "replay_attempts": 3,
             "must_probe": ["fault_while_push_outstanding", "checkpoints"]},
            {"check": "c02b", "what": "PushQueue Enqueue/Dequeue/MarkDone/ShutDown interleavings, coverage + exact-union + no-aliasing oracle",
             "nontrivial": "an Enqueue hit a connection that was dequeued and not yet marked done",
             "budget": {"quick": 20, "thorough": 300}, "seeds": {"quick": 1, "thorough": 3}, "chunk": 400,
             "must_probe": ["enqueue_while_processing", "merged_dequeue"]},
        ],
    },
}
