module verif/sim

go 1.26.0

require (
	github.com/anishathalye/porcupine v1.3.0
	go.uber.org/atomic v1.11.0
	istio.io/istio v0.0.0
)

require (
	cel.dev/expr v0.25.1 // indirect
	dario.cat/mergo v1.0.2 // indirect
	github.com/Masterminds/goutils v1.1.1 // indirect
	github.com/Masterminds/semver/v3 v3.5.0 // indirect
	github.com/Masterminds/sprig/v3 v3.3.0 // indirect
	github.com/antlr4-go/antlr/v4 v4.13.1 // indirect
	github.com/beorn7/perks v1.0.1 // indirect
	github.com/cespare/xxhash/v2 v2.3.0 // indirect
	github.com/cncf/xds/go v0.0.0-20260202195803-dba9d589def2 // indirect
	github.com/davecgh/go-spew v1.1.2-0.20180830191138-d8f796af33cc // indirect
	github.com/emicklei/go-restful/v3 v3.13.0 // indirect
	github.com/envoyproxy/go-control-plane/contrib v1.36.1-0.20260731231718-6c0b035a1609 // indirect
	github.com/envoyproxy/go-control-plane/envoy v1.37.1-0.20260731231718-6c0b035a1609 // indirect
	github.com/envoyproxy/protoc-gen-validate v1.3.3 // indirect
	github.com/fsnotify/fsnotify v1.10.1 // indirect
	github.com/fxamacker/cbor/v2 v2.9.1 // indirect
	github.com/go-jose/go-jose/v4 v4.1.4 // indirect
	github.com/go-logr/logr v1.4.3 // indirect
	github.com/go-logr/stdr v1.2.2 // indirect
	github.com/go-openapi/jsonpointer v0.23.1 // indirect
	github.com/go-openapi/jsonreference v0.21.5 // indirect
	github.com/go-openapi/swag v0.26.0 // indirect
	github.com/go-openapi/swag/cmdutils v0.26.0 // indirect
	github.com/go-openapi/swag/conv v0.26.0 // indirect
	github.com/go-openapi/swag/fileutils v0.26.0 // indirect
	github.com/go-openapi/swag/jsonname v0.26.0 // indirect
	github.com/go-openapi/swag/jsonutils v0.26.0 // indirect
	github.com/go-openapi/swag/loading v0.26.0 // indirect
	github.com/go-openapi/swag/mangling v0.26.0 // indirect
	github.com/go-openapi/swag/netutils v0.26.0 // indirect
	github.com/go-openapi/swag/stringutils v0.26.0 // indirect
	github.com/go-openapi/swag/typeutils v0.26.0 // indirect
	github.com/go-openapi/swag/yamlutils v0.26.0 // indirect
	github.com/golang/protobuf v1.5.4 // indirect
	github.com/google/btree v1.1.3 // indirect
	github.com/google/cel-go v0.28.1 // indirect
	github.com/google/gnostic-models v0.7.1 // indirect
	github.com/google/go-cmp v0.7.0 // indirect
	github.com/google/uuid v1.6.0 // indirect
	github.com/gorilla/websocket v1.5.4-0.20250319132907-e064f32e3674 // indirect
	github.com/grpc-ecosystem/go-grpc-middleware/v2 v2.3.3 // indirect
	github.com/hashicorp/errwrap v1.1.0 // indirect
	github.com/hashicorp/go-multierror v1.1.1 // indirect
	github.com/hashicorp/golang-lru/v2 v2.0.7 // indirect
	github.com/huandu/xstrings v1.5.0 // indirect
	github.com/json-iterator/go v1.1.12 // indirect
	github.com/lestrrat-go/backoff/v2 v2.0.8 // indirect
	github.com/lestrrat-go/blackmagic v1.0.4 // indirect
	github.com/lestrrat-go/httpcc v1.0.1 // indirect
	github.com/lestrrat-go/iter v1.0.2 // indirect
	github.com/lestrrat-go/jwx v1.2.31 // indirect
	github.com/lestrrat-go/option v1.0.1 // indirect
	github.com/miekg/dns v1.1.72 // indirect
	github.com/mitchellh/copystructure v1.2.0 // indirect
	github.com/mitchellh/reflectwalk v1.0.2 // indirect
	github.com/moby/spdystream v0.5.1 // indirect
	github.com/modern-go/concurrent v0.0.0-20180306012644-bacd9c7ef1dd // indirect
	github.com/modern-go/reflect2 v1.0.3-0.20250322232337-35a7c28c31ee // indirect
	github.com/munnerz/goautoneg v0.0.0-20191010083416-a7dc8b61c822 // indirect
	github.com/peterbourgon/diskv v2.0.1+incompatible // indirect
	github.com/pkg/errors v0.9.1 // indirect
	github.com/pmezard/go-difflib v1.0.1-0.20181226105442-5d4384ee4fb2 // indirect
	github.com/prometheus/client_golang v1.23.2 // indirect
	github.com/prometheus/client_model v0.6.2 // indirect
	github.com/prometheus/common v0.67.5 // indirect
	github.com/prometheus/otlptranslator v1.0.0 // indirect
	github.com/prometheus/procfs v0.20.1 // indirect
	github.com/shopspring/decimal v1.4.0 // indirect
	github.com/spf13/cast v1.10.0 // indirect
	github.com/spf13/cobra v1.10.2 // indirect
	github.com/spf13/pflag v1.0.10 // indirect
	github.com/x448/float16 v0.8.4 // indirect
	go.opentelemetry.io/auto/sdk v1.2.1 // indirect
	go.opentelemetry.io/otel v1.43.0 // indirect
	go.opentelemetry.io/otel/exporters/prometheus v0.65.0 // indirect
	go.opentelemetry.io/otel/metric v1.43.0 // indirect
	go.opentelemetry.io/otel/sdk v1.43.0 // indirect
	go.opentelemetry.io/otel/sdk/metric v1.43.0 // indirect
	go.opentelemetry.io/otel/trace v1.43.0 // indirect
	go.opentelemetry.io/proto/otlp v1.11.0 // indirect
	go.uber.org/multierr v1.11.0 // indirect
	go.uber.org/zap v1.28.0 // indirect
	go.yaml.in/yaml/v2 v2.4.4 // indirect
	go.yaml.in/yaml/v3 v3.0.4 // indirect
	golang.org/x/crypto v0.54.0 // indirect
	golang.org/x/exp v0.0.0-20260218203240-3dfff04db8fa // indirect
	golang.org/x/net v0.57.0 // indirect
	golang.org/x/oauth2 v0.36.0 // indirect
	golang.org/x/sync v0.22.0 // indirect
	golang.org/x/sys v0.47.0 // indirect
	golang.org/x/term v0.45.0 // indirect
	golang.org/x/text v0.40.0 // indirect
	golang.org/x/time v0.15.0 // indirect
	google.golang.org/genproto/googleapis/api v0.0.0-20260720211330-0afa2a65878a // indirect
	google.golang.org/genproto/googleapis/rpc v0.0.0-20260720211330-0afa2a65878a // indirect
	google.golang.org/grpc v1.82.1 // indirect
	google.golang.org/protobuf v1.36.12-0.20260120151049-f2248ac996af // indirect
	gopkg.in/evanphx/json-patch.v4 v4.13.0 // indirect
	gopkg.in/inf.v0 v0.9.1 // indirect
	gopkg.in/natefinch/lumberjack.v2 v2.2.1 // indirect
	istio.io/api v1.31.0-alpha.1.0.20260819121012-5803fb6accf7 // indirect
	istio.io/client-go v1.31.0-alpha.0.0.20260807010324-676a810f2c1f // indirect
	k8s.io/api v0.36.1 // indirect
	k8s.io/apiextensions-apiserver v0.36.1 // indirect
	k8s.io/apimachinery v0.36.1 // indirect
	k8s.io/apiserver v0.36.1 // indirect
	k8s.io/client-go v0.36.1 // indirect
	k8s.io/klog/v2 v2.140.0 // indirect
	k8s.io/kube-openapi v0.0.0-20260501160325-927ab1f70cd6 // indirect
	k8s.io/streaming v0.36.1 // indirect
	k8s.io/utils v0.0.0-20260319190234-28399d86e0b5 // indirect
	sigs.k8s.io/gateway-api v1.6.0 // indirect
	sigs.k8s.io/gateway-api-inference-extension v1.5.0 // indirect
	sigs.k8s.io/json v0.0.0-20250730193827-2d320260d730 // indirect
	sigs.k8s.io/mcs-api v0.4.1 // indirect
	sigs.k8s.io/randfill v1.0.0 // indirect
	sigs.k8s.io/structured-merge-diff/v6 v6.4.0 // indirect
	sigs.k8s.io/yaml v1.6.0 // indirect
)

replace istio.io/istio => /repo
