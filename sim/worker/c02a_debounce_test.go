package worker

import (
	"fmt"
	"sort"
	"strings"
	"sync"
	"testing"
	"testing/synctest"
	"time"

	"go.uber.org/atomic"

	"istio.io/istio/pilot/pkg/model"
	"istio.io/istio/pilot/pkg/xds"
	"istio.io/istio/pkg/config/schema/kind"
	"istio.io/istio/pkg/util/sets"
	"verif/sim/engine"
)

// C02 (a): the real debounce loop (xds.debounce through the verif accessor) on virtual time.
// The simulator decides when each notification arrives (including exactly at timer expiry +-1us
// and while a push runs) and when each push returns.

func init() { register("c02a", "C02", runC02a) }

type dbEvent struct {
	token   string
	at      time.Duration
	keys    []string
	forced  bool
	edsOnly bool
	covered bool
}

type dbPush struct {
	id        int
	start     time.Duration
	end       time.Duration // -1 while running
	tokens    []string
	keys      map[string]struct{}
	forced    bool
	immediate bool // the non-debounced EDS path (enableEDSDebounce=false)
}

func runC02a(t *testing.T, r *engine.Run) {
	tp := r.T
	das := []time.Duration{0, 10 * time.Millisecond, 100 * time.Millisecond}
	da := das[tp.Choose(len(das), "debounceAfter")]
	mults := []time.Duration{1, 3, 10}
	dmax := da * mults[tp.Choose(len(mults), "maxmult")]
	if da == 0 {
		dmax = []time.Duration{0, 5 * time.Millisecond}[tp.Choose(2, "max0")]
	}
	edsDebounce := !tp.Bool(1, 4, "edsDebounceOff")
	maxSteps := 8 + tp.Choose(50, "maxsteps")
	r.Config["debounceAfter"] = da.String()
	r.Config["debounceMax"] = dmax.String()
	r.Config["edsDebounce"] = fmt.Sprint(edsDebounce)

	t0 := time.Now()
	now := func() time.Duration { return time.Since(t0) }
	ch := make(chan *model.PushRequest, 10)
	stop := make(chan struct{})
	updateSent := atomic.NewInt64(0)
	sched := engine.NewSched()

	var mu sync.Mutex
	var pushes []*dbPush
	var events []*dbEvent
	byToken := map[string]*dbEvent{}

	pushFn := func(req *model.PushRequest) {
		mu.Lock()
		p := &dbPush{id: len(pushes), start: now(), end: -1, keys: map[string]struct{}{}, forced: req.Forced}
		for k := range req.AddressesUpdated {
			p.tokens = append(p.tokens, k)
		}
		sort.Strings(p.tokens)
		for k := range req.ConfigsUpdated {
			p.keys[k.String()] = struct{}{}
		}
		if len(req.Reason) == 0 {
			p.keys["!noreason"] = struct{}{}
		}
		pushes = append(pushes, p)
		mu.Unlock()
		sched.Yield("pushfn", fmt.Sprintf("%03d", p.id))
		mu.Lock()
		p.end = now()
		mu.Unlock()
	}
	go xds.VerifDebounce(ch, stop, da, dmax, edsDebounce, pushFn, updateSent)
	synctest.Wait()

	seen := 0
	var lastReturn time.Duration = -1
	lastReturnSeen := map[int]bool{}
	check := func() {
		mu.Lock()
		defer mu.Unlock()
		tnow := now()
		for ; seen < len(pushes); seen++ {
			p := pushes[seen]
			if len(p.tokens) == 0 {
				r.Fail("debounce.push_without_input", "", "push #%d started at %v carries no accepted notification", p.id, p.start)
				continue
			}
			if _, bad := p.keys["!noreason"]; bad {
				r.Fail("debounce.reason_missing", "", "push #%d has no reason", p.id)
			}
			want := map[string]struct{}{}
			wantForced := false
			allEds := true
			for _, tk := range p.tokens {
				ev := byToken[tk]
				if ev == nil {
					r.Fail("debounce.unknown_token", "", "push #%d carries %s which was never sent", p.id, tk)
					continue
				}
				if ev.covered {
					r.Fail("debounce.duplicate_delivery", "", "notification %s delivered by two pushes", tk)
				}
				if ev.at > p.start {
					r.Fail("debounce.push_before_event", "", "push #%d started at %v before %s was accepted at %v", p.id, p.start, tk, ev.at)
				}
				ev.covered = true
				for _, k := range ev.keys {
					want[k] = struct{}{}
				}
				wantForced = wantForced || ev.forced
				allEds = allEds && ev.edsOnly
			}
			p.immediate = !edsDebounce && allEds && len(p.tokens) == 1
			if strings.Join(keysOf(p.keys), ";") != strings.Join(keysOf(want), ";") {
				r.Fail("debounce.keys_not_union", "", "push #%d ConfigsUpdated=%v, union of its notifications=%v", p.id, keysOf(p.keys), keysOf(want))
			}
			if p.forced != wantForced {
				r.Fail("debounce.forced_lost", "", "push #%d Forced=%v, want %v", p.id, p.forced, wantForced)
			}
			if len(p.tokens) > 1 {
				r.Probe("merged_push")
			}
			r.Logf("push #%d start=%v tokens=%v keys=%v forced=%v immediate=%v", p.id, p.start, p.tokens, keysOf(p.keys), p.forced, p.immediate)
		}
		running := 0
		for _, p := range pushes {
			if p.end >= 0 && !p.immediate && !lastReturnSeen[p.id] {
				lastReturnSeen[p.id] = true
				if p.end > lastReturn {
					lastReturn = p.end
				}
			}
			if p.end < 0 && !p.immediate {
				running++
			}
		}
		if running > 1 {
			r.Fail("debounce.two_pushes", "", "%d debounced pushes running at the same time", running)
		}
		// bounded liveness
		if running == 0 {
			var first, last time.Duration = -1, -1
			for _, ev := range events {
				if ev.covered || (!edsDebounce && ev.edsOnly) {
					continue
				}
				if first < 0 {
					first = ev.at
				}
				last = ev.at
			}
			if first >= 0 {
				quietDeadline := last + da
				if lastReturn > quietDeadline {
					quietDeadline = lastReturn
				}
				if tnow > quietDeadline {
					r.Fail("debounce.push_overdue_quiet", "", "at %v: notification(s) since %v uncovered, last event %v, last push returned %v, debounceAfter=%v: push should have started by %v", tnow, first, last, lastReturn, da, quietDeadline)
				}
				maxDeadline := first + dmax + da
				if lastReturn > maxDeadline {
					maxDeadline = lastReturn
				}
				if tnow > maxDeadline {
					r.Fail("debounce.push_overdue_max", "", "at %v: first uncovered notification %v, debounceMax=%v debounceAfter=%v: push should have started by %v", tnow, first, dmax, da, maxDeadline)
				}
			}
		}
		// immediate EDS path: covered at once
		if !edsDebounce {
			for _, ev := range events {
				if ev.edsOnly && !ev.covered {
					r.Fail("debounce.eds_not_immediate", "", "endpoint-only notification %s not pushed at once with EDS debounce off", ev.token)
				}
			}
		}
	}

	nev := 0
	send := func() {
		nev++
		ev := &dbEvent{token: fmt.Sprintf("e%d", nev), at: now()}
		req := &model.PushRequest{AddressesUpdated: sets.New(ev.token)}
		switch tp.Choose(4, "shape") {
		case 0: // endpoint-only
			ev.edsOnly = true
			k := model.ConfigKey{Kind: kind.Endpoints, Name: fmt.Sprintf("svc%d", tp.Choose(3, "svc")), Namespace: "a"}
			req.ConfigsUpdated = sets.New(k)
		case 1: // forced, no keys
			req.Forced = true
		default:
			req.ConfigsUpdated = sets.New[model.ConfigKey]()
			n := 1 + tp.Choose(2, "nk")
			for i := 0; i < n; i++ {
				req.ConfigsUpdated.Insert(pqKeyUniverse[tp.Choose(len(pqKeyUniverse), "k")])
			}
			req.Forced = tp.Bool(1, 5, "forced")
		}
		if tp.Bool(3, 4, "reason") {
			req.Reason = model.NewReasonStats(model.ConfigUpdate)
		}
		// "endpoint-only" is a property of the key set alone (non-empty, all of kind Endpoints)
		ev.edsOnly = len(req.ConfigsUpdated) > 0
		for k := range req.ConfigsUpdated {
			ev.keys = append(ev.keys, k.String())
			if k.Kind != kind.Endpoints {
				ev.edsOnly = false
			}
		}
		sort.Strings(ev.keys)
		ev.forced = req.Forced
		events = append(events, ev)
		byToken[ev.token] = ev
		mu.Lock()
		running := 0
		for _, p := range pushes {
			if p.end < 0 && !p.immediate {
				running++
			}
		}
		mu.Unlock()
		if running > 0 {
			r.Probe("event_while_push_running")
			r.NonTriv = true
		}
		r.Logf("t=%v send %s keys=%v forced=%v edsOnly=%v", ev.at, ev.token, ev.keys, ev.forced, ev.edsOnly)
		ch <- req
	}
	unit := da
	if unit == 0 {
		unit = time.Millisecond
	}
	advance := func() {
		var d time.Duration
		switch tp.Choose(7, "adv") {
		case 0:
			d = time.Microsecond
		case 1:
			d = unit / 2
		case 2:
			d = unit - time.Microsecond
		case 3:
			d = unit
		case 4:
			d = unit + time.Microsecond
		case 5:
			d = dmax + time.Microsecond
		case 6:
			d = unit / 10
		}
		if d <= 0 {
			d = time.Microsecond
		}
		time.Sleep(d)
		r.Logf("t=%v advanced %v", now(), d)
	}

	for r.Steps = 0; r.Steps < maxSteps && !r.Failed() && !tp.Exhausted(); r.Steps++ {
		acts := []string{"send", "advance", "send", "advance"}
		acts = append(acts, sched.Parked()...)
		a := acts[tp.Choose(len(acts), "act")]
		tp.Note(a)
		switch a {
		case "send":
			send()
		case "advance":
			advance()
		default:
			r.Logf("t=%v release %s", now(), a)
			sched.Release(a)
		}
		synctest.Wait()
		check()
	}
	// wind down: inputs stop; every push returns as soon as it starts; time moves on
	for i := 0; i < 200 && !r.Failed(); i++ {
		if p := sched.Parked(); len(p) > 0 {
			sched.Release(p[0])
		} else {
			uncovered := false
			for _, ev := range events {
				if !ev.covered {
					uncovered = true
				}
			}
			if !uncovered {
				break
			}
			time.Sleep(unit/2 + time.Microsecond)
		}
		synctest.Wait()
		check()
		r.Steps++
	}
	if !r.Failed() {
		for _, ev := range events {
			if !ev.covered {
				r.Fail("debounce.update_lost", "", "notification %s (accepted at %v) never reached a push", ev.token, ev.at)
			}
		}
		if got := updateSent.Load(); got != int64(len(events)) && !r.Failed() {
			r.Fail("debounce.committed_count", "", "updateSent=%d after all pushes returned, %d notifications accepted", got, len(events))
		}
	}
	close(stop)
	sched.Drain()
	synctest.Wait()
}
