package worker

import (
	"fmt"
	"sort"
	"strings"
	"testing"
	"testing/synctest"
	"time"

	"github.com/anishathalye/porcupine"

	"istio.io/istio/pilot/pkg/model"
	"istio.io/istio/pilot/pkg/serviceregistry/provider"
	"istio.io/istio/pkg/cluster"
	"istio.io/istio/pkg/simhook"
	"istio.io/istio/pkg/util/sets"
	"verif/sim/engine"
)

// C13 (a): the real model.EndpointIndex driven by 2-4 simulated registries whose calls are
// interleaved by the simulator, including inside UpdateServiceEndpoints (yield hook between the
// shard-set lookup and its lock). The recorded invoke/return history is checked for
// linearizability against a sequential reference model with porcupine.

func init() { register("c13a", "C13", runC13a) }

type epE struct {
	addr   string
	gen    int
	sa     string
	health model.HealthStatus
}

func (e epE) String() string {
	return fmt.Sprintf("%s#%d/%s/%d", e.addr, e.gen, e.sa, e.health)
}

type epIn struct {
	// conc: this update overlapped another update of the same service. The update that creates the
	// shard set reports FullPush and the other one may then report less than a sequential execution in
	// which it came first would; the full push is still requested, so only "no push at all" is wrong.
	conc  bool
	kind  string // update | delsvc | delshard | prune | read
	shard int
	svc   string
	eps   []epE
	keep  []string
}

func (i epIn) String() string {
	switch i.kind {
	case "update":
		return fmt.Sprintf("Update(sh%d,%s,%v)", i.shard, i.svc, i.eps)
	case "delsvc":
		return fmt.Sprintf("DeleteServiceShard(sh%d,%s,preserveKeys=false)", i.shard, i.svc)
	case "delshard":
		return fmt.Sprintf("DeleteShard(sh%d)", i.shard)
	case "prune":
		return fmt.Sprintf("PruneShard(sh%d,keep=%v)", i.shard, i.keep)
	}
	return "Shardz()"
}

type epOut struct {
	push int
	snap string
}

// sequential reference model ------------------------------------------------------------

type refSvc struct {
	shards map[int][]epE
	sas    []string
}

type refState struct {
	svcs map[string]*refSvc
}

func (s *refState) clone() *refState {
	o := &refState{svcs: map[string]*refSvc{}}
	for k, v := range s.svcs {
		n := &refSvc{shards: map[int][]epE{}, sas: append([]string(nil), v.sas...)}
		for sk, eps := range v.shards {
			n.shards[sk] = append([]epE(nil), eps...)
		}
		o.svcs[k] = n
	}
	return o
}

// view is what a reader may rely on: per service the non-empty per-registry reports. Existence of
// an empty shard set and the accumulated service-account set are bookkeeping, not membership.
func (s *refState) view() string {
	var names []string
	for k := range s.svcs {
		names = append(names, k)
	}
	sort.Strings(names)
	var b strings.Builder
	for _, n := range names {
		v := s.svcs[n]
		var sks []int
		for sk, eps := range v.shards {
			if len(eps) > 0 {
				sks = append(sks, sk)
			}
		}
		if len(sks) == 0 {
			continue
		}
		sort.Ints(sks)
		fmt.Fprintf(&b, "%s{", n)
		for _, sk := range sks {
			fmt.Fprintf(&b, "sh%d=%v;", sk, v.shards[sk])
		}
		b.WriteString("}")
	}
	return b.String()
}

func (s *refState) canon() string {
	var names []string
	for k := range s.svcs {
		names = append(names, k)
	}
	sort.Strings(names)
	var b strings.Builder
	for _, n := range names {
		v := s.svcs[n]
		fmt.Fprintf(&b, "%s{", n)
		var sks []int
		for sk := range v.shards {
			sks = append(sks, sk)
		}
		sort.Ints(sks)
		for _, sk := range sks {
			fmt.Fprintf(&b, "sh%d=%v;", sk, v.shards[sk])
		}
		fmt.Fprintf(&b, "sa=%v}", v.sas)
	}
	return b.String()
}

func refSAs(v *refSvc) []string {
	m := map[string]struct{}{}
	for _, eps := range v.shards {
		for _, e := range eps {
			if e.sa != "" {
				m[e.sa] = struct{}{}
			}
		}
	}
	return keysOf(m)
}

// refNeedPush is the documented rule: push when something a proxy could see changed.
func refNeedPush(old, inc []epE, hadOld bool) bool {
	if !hadOld {
		return true
	}
	om := map[string]epE{}
	for _, e := range old {
		om[e.addr] = e
	}
	nm := map[string]struct{}{}
	for _, e := range inc {
		nm[e.addr] = struct{}{}
		if o, ok := om[e.addr]; ok {
			if o != e {
				return true
			}
		} else if e.health != model.UnHealthy {
			return true
		}
	}
	for _, e := range old {
		if _, ok := nm[e.addr]; !ok {
			return true
		}
	}
	return false
}

func refDelete(s *refState, shard int, svc string, preserve bool) {
	v := s.svcs[svc]
	if v == nil {
		return
	}
	delete(v.shards, shard)
	if !preserve && len(v.shards) == 0 {
		delete(s.svcs, svc)
	}
}

func refStep(st *refState, in epIn) (*refState, epOut) {
	s := st.clone()
	switch in.kind {
	case "update":
		if len(in.eps) == 0 {
			refDelete(s, in.shard, in.svc, true)
			return s, epOut{push: int(model.IncrementalPush)}
		}
		push := model.IncrementalPush
		v := s.svcs[in.svc]
		if v == nil {
			v = &refSvc{shards: map[int][]epE{}}
			s.svcs[in.svc] = v
			push = model.FullPush
		}
		old, had := v.shards[in.shard]
		if push != model.FullPush && !refNeedPush(old, in.eps, had) {
			push = model.NoPush
		}
		v.shards[in.shard] = append([]epE(nil), in.eps...)
		if sas := refSAs(v); strings.Join(sas, ",") != strings.Join(v.sas, ",") {
			v.sas = sas
			push = model.FullPush
		}
		return s, epOut{push: int(push)}
	case "delsvc":
		refDelete(s, in.shard, in.svc, false)
	case "delshard":
		for svc := range s.svcs {
			refDelete(s, in.shard, svc, false)
		}
	case "prune":
		keep := map[string]bool{}
		for _, k := range in.keep {
			keep[k] = true
		}
		for svc := range s.svcs {
			if !keep[svc] {
				refDelete(s, in.shard, svc, false)
			}
		}
	case "read":
		return s, epOut{snap: s.view()}
	}
	return s, epOut{}
}

var epModel = porcupine.Model{
	Init: func() interface{} { return &refState{svcs: map[string]*refSvc{}} },
	Step: func(state, input, output interface{}) (bool, interface{}) {
		ns, want := refStep(state.(*refState), input.(epIn))
		got := output.(epOut)
		// a stronger push than the sequential execution needs (Full for Incremental) is harmless over-pushing;
		// a weaker one would leave proxies stale.
		need := want.push
		if input.(epIn).conc && need > int(model.IncrementalPush) {
			need = int(model.IncrementalPush)
		}
		return want.snap == got.snap && got.push >= need, ns
	},
	Equal: func(a, b interface{}) bool { return a.(*refState).canon() == b.(*refState).canon() },
	DescribeOperation: func(input, output interface{}) string {
		return fmt.Sprintf("%v -> %+v", input, output)
	},
}

// implementation side ---------------------------------------------------------------------

const c13ns = "ns"

// c13split: a service of the model is a (hostname, namespace) pair written "host" (namespace c13ns) or "host@namespace";
// the same hostname may exist in two namespaces, each with its own shard set.
func c13split(svc string) (host, ns string) {
	if i := strings.IndexByte(svc, '@'); i >= 0 {
		return svc[:i], svc[i+1:]
	}
	return svc, c13ns
}

func c13shard(i int) model.ShardKey {
	return model.ShardKey{Cluster: cluster.ID(fmt.Sprintf("c%d", i)), Provider: provider.Kubernetes}
}

func c13eps(svc string, eps []epE) []*model.IstioEndpoint {
	_, c13ns := c13split(svc)
	out := make([]*model.IstioEndpoint, 0, len(eps))
	for _, e := range eps {
		out = append(out, &model.IstioEndpoint{
			Addresses:       []string{e.addr},
			ServicePortName: "http",
			EndpointPort:    80,
			ServiceAccount:  e.sa,
			HealthStatus:    e.health,
			Namespace:       c13ns,
			HostName:        "",
			Labels:          map[string]string{"gen": fmt.Sprint(e.gen)},
		})
	}
	return out
}

func c13snapshot(idx *model.EndpointIndex) string {
	z := idx.Shardz()
	var names []string
	byName := map[string]*model.EndpointShards{}
	for svc, byNs := range z {
		for ns, v := range byNs {
			n := svc
			if ns != c13ns {
				n = svc + "@" + ns
			}
			names = append(names, n)
			byName[n] = v
		}
	}
	sort.Strings(names)
	var b strings.Builder
	for _, n := range names {
		v := byName[n]
		var sks []int
		byKey := map[int][]*model.IstioEndpoint{}
		for sk, eps := range v.Shards {
			if len(eps) == 0 {
				continue
			}
			var i int
			fmt.Sscanf(string(sk.Cluster), "c%d", &i)
			sks = append(sks, i)
			byKey[i] = eps
		}
		if len(sks) == 0 {
			continue
		}
		sort.Ints(sks)
		fmt.Fprintf(&b, "%s{", n)
		for _, sk := range sks {
			var es []epE
			for _, ep := range byKey[sk] {
				var gen int
				fmt.Sscanf(ep.Labels["gen"], "%d", &gen)
				es = append(es, epE{addr: ep.Addresses[0], gen: gen, sa: ep.ServiceAccount, health: ep.HealthStatus})
			}
			fmt.Fprintf(&b, "sh%d=%v;", sk, es)
		}
		b.WriteString("}")
	}
	return b.String()
}

type c13op struct {
	in       epIn
	out      epOut
	call     int64
	ret      int64
	reg      int
	finished bool
}

func runC13a(t *testing.T, r *engine.Run) {
	tp := r.T
	nreg := 2 + tp.Choose(3, "nreg")
	nsvc := 1 + tp.Choose(2, "nsvc")
	nops := 3 + tp.Choose(10, "nops")
	useHook := !tp.Bool(1, 8, "nohook") // a few runs without the inner window (pure op-level interleaving)
	svcs := []string{"s1.example.com", "s2.example.com"}[:nsvc]
	if tp.Bool(1, 3, "twoNamespaces") {
		// the first hostname also exists in a second namespace: a different service with its own shard set
		svcs = append(svcs, "s1.example.com@ns2")
		nsvc++
		r.Probe("hostname_in_two_namespaces")
	}
	addrs := []string{"10.0.0.1", "10.0.0.2", "10.0.0.3"}
	sas := []string{"", "sa1", "sa2"}
	r.Config["nreg"] = fmt.Sprint(nreg)

	idx := model.NewEndpointIndex(model.DisabledCache{})
	sched := engine.NewSched()
	sched.Filter = func(point, key string) bool {
		return point == "task" || (useHook && point == "epindex.update.afterLookup")
	}
	simhook.SetHook(sched.Yield)
	defer simhook.SetHook(nil)

	// generate per-registry programs up front
	gen := 0
	lastList := map[string][]epE{}
	progs := make([][]*c13op, nreg)
	var all []*c13op
	for i := 0; i < nops; i++ {
		reg := tp.Choose(nreg, "reg")
		in := epIn{shard: reg}
		// registries may also act on another registry's shard key only through delshard/prune of their own: keep own shard.
		switch k := tp.Choose(10, "kind"); {
		case k < 5:
			in.kind = "update"
			in.svc = svcs[tp.Choose(nsvc, "svc")]
			lk := fmt.Sprintf("%d/%s", reg, in.svc)
			switch tp.Choose(6, "shape") {
			case 0: // empty list
			case 1: // resend identical list
				in.eps = append([]epE(nil), lastList[lk]...)
			default:
				gen++
				n := 1 + tp.Choose(2, "neps")
				used := map[string]bool{}
				for j := 0; j < n; j++ {
					a := addrs[tp.Choose(len(addrs), "addr")]
					if used[a] {
						continue
					}
					used[a] = true
					h := model.Healthy
					if tp.Bool(1, 4, "unhealthy") {
						h = model.UnHealthy
					}
					in.eps = append(in.eps, epE{addr: a, gen: gen, sa: sas[tp.Choose(len(sas), "sa")], health: h})
				}
			}
			lastList[lk] = in.eps
		case k < 7:
			in.kind = "delsvc"
			in.svc = svcs[tp.Choose(nsvc, "svc")]
		case k < 8:
			in.kind = "delshard"
		case k < 9:
			in.kind = "prune"
			for _, s := range svcs {
				if tp.Bool(1, 2, "keep") {
					in.keep = append(in.keep, s)
				}
			}
		default:
			in.kind = "read"
		}
		op := &c13op{in: in, reg: reg}
		progs[reg] = append(progs[reg], op)
		all = append(all, op)
	}

	var clock int64
	exec := func(op *c13op) {
		in := op.in
		switch in.kind {
		case "update":
			host, ns := c13split(in.svc)
			pt := idx.UpdateServiceEndpoints(c13shard(in.shard), host, ns, c13eps(in.svc, in.eps), true)
			op.out = epOut{push: int(pt)}
		case "delsvc":
			host, ns := c13split(in.svc)
			idx.DeleteServiceShard(c13shard(in.shard), host, ns, false)
		case "delshard":
			idx.DeleteShard(c13shard(in.shard))
		case "prune":
			keep := map[string]sets.String{}
			for _, k := range in.keep {
				host, ns := c13split(k)
				if keep[host] == nil {
					keep[host] = sets.New[string]()
				}
				keep[host].Insert(ns)
			}
			idx.PruneShard(c13shard(in.shard), keep)
		case "read":
			op.out = epOut{snap: c13snapshot(idx)}
		}
	}
	running := make([]*c13op, nreg) // op currently executing per registry (nil = between ops)
	for reg := 0; reg < nreg; reg++ {
		reg := reg
		name := fmt.Sprintf("r%d", reg)
		go func() {
			for _, op := range progs[reg] {
				sched.Yield("task", name)
				// exactly one goroutine runs per step, so the driver's clock is stable here
				op.call = clock
				running[reg] = op
				exec(op)
				op.finished = true
			}
		}()
	}
	synctest.Wait()

	step := func(a string) {
		clock += 2
		r.Steps++
		tp.Note(a)
		if strings.HasPrefix(a, "epindex.") {
			r.Probe("released_inside_update")
		}
		// was something else done while an update was parked inside?
		for _, k := range sched.Parked() {
			if strings.HasPrefix(k, "epindex.") && k != a {
				r.Probe("op_while_update_parked")
				r.NonTriv = true
			}
		}
		sched.Release(a)
		time.Sleep(time.Microsecond)
		synctest.Wait()
		for reg, op := range running {
			if op != nil && op.finished && op.ret == 0 {
				op.ret = clock + 1
				r.Logf("r%d %v -> %+v   [call=%d ret=%d]", reg, op.in, op.out, op.call, op.ret)
				running[reg] = nil
			} else if op != nil && !op.finished && op.call == clock {
				r.Logf("r%d %v parked inside (after lookup)", reg, op.in)
			}
		}
	}
	for !r.Failed() {
		parked := sched.Parked()
		if len(parked) == 0 {
			break
		}
		a := parked[tp.Choose(len(parked), "act")]
		step(a)
		if r.Steps > 200 {
			r.Inconclusive = "step cap"
			break
		}
	}
	sched.Drain()
	synctest.Wait()

	// final sequential read closes the history
	clock += 2
	final := &c13op{in: epIn{kind: "read"}, call: clock, ret: clock + 1, out: epOut{snap: c13snapshot(idx)}, finished: true}
	r.Logf("final %v -> %s", final.in, final.out.snap)
	all = append(all, final)

	for _, u := range all {
		if u.in.kind != "update" || !u.finished {
			continue
		}
		for _, o := range all {
			if o != u && o.finished && o.in.kind == "update" && o.in.svc == u.in.svc && o.call < u.ret && u.call < o.ret {
				u.in.conc = true
				r.Probe("concurrent_updates_same_service")
			}
		}
	}
	var ops []porcupine.Operation
	for i, op := range all {
		if !op.finished {
			continue // never started (step cap)
		}
		ops = append(ops, porcupine.Operation{ClientId: op.reg, Input: op.in, Output: op.out, Call: op.call, Return: op.ret})
		_ = i
	}
	res := porcupine.CheckOperationsTimeout(epModel, ops, 20*time.Second)
	switch res {
	case porcupine.Illegal:
		// key: the kinds of operations that overlapped a parked update (stable across seeds)
		r.Fail("epindex.not_linearizable", c13key(all), "history of %d operations on the endpoint index has no sequential explanation (final state %q)", len(ops), final.out.snap)
	case porcupine.Unknown:
		r.Inconclusive = "porcupine timeout"
		r.Probe("porcupine_unknown")
	}
}

// c13key summarises which operation kinds ran while an update was parked after its lookup.
func c13key(all []*c13op) string {
	m := map[string]struct{}{}
	for _, u := range all {
		if u.in.kind != "update" || !u.finished || u.ret-u.call <= 1 {
			continue
		}
		for _, o := range all {
			if o != u && o.finished && o.call > u.call && o.ret < u.ret && o.in.kind != "read" {
				k := o.in.kind
				if o.in.kind == "update" && len(o.in.eps) == 0 {
					k = "update-empty"
				}
				m["update||"+k] = struct{}{}
			}
		}
	}
	return strings.Join(keysOf(m), ",")
}
