package worker

import (
	"fmt"
	"os"
	"sort"
	"testing"
	"testing/synctest"

	"google.golang.org/grpc/codes"

	"istio.io/istio/pkg/simhook"

	"verif/sim/engine"
)

// C05: stream cuts, client crash+reconnect (retained versions, nonces, names, initial_resource_versions),
// send errors and istiod restarts at arbitrary points of a history, reconnect to the same instance, to a
// second live replica or to a restarted one (DESIGN 4.5).

func init() { register("c05", "C05", runC05) }

func runC05(t *testing.T, r *engine.Run) {
	tp := r.T
	bubbleInit()
	db := pickDebounce(tp)
	opts := wisOpts{debounceAfter: db.after, debounceMax: db.max}
	insts := []*wisInstance{newWisInstance(t, "istiod-0", opts)}
	twoReplicas := tp.Bool(1, 3, "twoReplicas")
	if twoReplicas {
		insts = append(insts, newWisInstance(t, "istiod-1", opts))
	}
	defer func() {
		for _, i := range insts {
			i.Close()
		}
		synctest.Wait()
	}()
	w := newWis(t, r, insts[0])
	defer w.cancel()
	defer simhook.SetHook(nil)
	initWindow := tp.Bool(1, 2, "initWindowHook")
	for _, c := range pickClients(tp, 3, true) {
		w.addClient(c)
	}
	for _, c := range w.clients {
		w.connect(c, insts[tp.Choose(len(insts), "inst")], false)
	}
	byInst := func() map[*wisInstance][]*xdsClient {
		m := map[*wisInstance][]*xdsClient{}
		for _, c := range w.clients {
			if c.connected {
				m[c.inst] = append(m[c.inst], c)
			}
		}
		return m
	}
	quiesceAll := func() bool {
		ok := true
		for _, i := range insts {
			if !w.quiesce(i, byInst()[i]) {
				ok = false
			}
		}
		return ok
	}
	if !quiesceAll() {
		r.Inconclusive = "no initial quiescence"
		return
	}
	if initWindow {
		// from now on a (re)connecting proxy is held between the registration of its connection and the
		// initialisation of the proxy until the simulator releases it
		w.enableHooks("ads.init.afterAddCon")
	}
	wd := newWorld(tp, nil)
	defer func() {
		if wd.raced {
			r.Probe("pushrace_tagged_run")
		}
	}()
	maxSteps := 10 + tp.Choose(50, "maxsteps")
	if tier == "thorough" {
		maxSteps = 10 + tp.Choose(120, "maxsteps2")
	}
	allowRestart := tp.Bool(1, 3, "allowRestart")
	r.Logf("clients=%v kinds=%v debounce=%v replicas=%d restart=%v", clientNames(w.clients), wd.kinds, db, len(insts), allowRestart)
	nmut := 0
	missed := false // some client was away while a mutation happened

	reconnect := func(c *xdsClient) {
		inst := insts[tp.Choose(len(insts), "reconnInst")]
		permute := tp.Bool(1, 3, "permuteDeps")
		c.presentNonce = c.delta && tp.Bool(1, 3, "presentNonce")
		c.lateRoots = permute && tp.Bool(1, 2, "lateRoots")
		if os.Getenv("VERIF_DEBUG_NOLATE") != "" {
			c.lateRoots = false
		}
		if os.Getenv("VERIF_DEBUG_NONONCE") != "" {
			c.presentNonce = false
		}
		r.Logf("%s reconnects to %s (stream #%d, deps first=%v, old nonce presented=%v) retaining %d types", c.name, inst.name, c.streams+1, permute, c.presentNonce || !c.delta, len(c.sub))
		r.Fault("client_reconnect")
		w.connect(c, inst, permute)
	}

	for r.Steps = 0; r.Steps < maxSteps && !r.Failed() && !tp.Exhausted(); r.Steps++ {
		type act struct {
			name string
			fn   func()
		}
		var acts []act
		add := func(weight int, name string, fn func()) {
			for i := 0; i < weight; i++ {
				acts = append(acts, act{name, fn})
			}
		}
		if nmut < 20 {
			add(3, "mutate", func() {
				m := wd.next(tp)
				for _, i := range insts {
					if err := m.apply(i); err != nil {
						r.Logf("mutation %s failed on %s: %v", m.desc, i.name, err)
					}
				}
				synctest.Wait()
				nmut++
				if len(w.parkedHooks()) > 0 {
					r.Probe("mutation_during_connection_init")
					r.NonTriv = true
				}
				for _, c := range w.clients {
					if !c.connected {
						missed = true
						r.Probe("mutation_while_disconnected")
					}
				}
				r.Logf("t=%v %s", w.now(), m.desc)
			})
		}
		add(2, "gap", func() { w.gap(tp, db) })
		for ci, c := range w.clients {
			c := c
			if w.hasParkedSend(c) {
				add(3, fmt.Sprintf("resp:%d", ci), func() { w.deliverResp(c) })
				add(1, fmt.Sprintf("senderr:%d", ci), func() {
					r.Fault("send_error")
					r.Logf("%s: parked send fails", c.name)
					w.failSend(c, []codes.Code{codes.Unavailable, codes.DeadlineExceeded}[tp.Choose(2, "code")])
				})
			}
			if w.canDeliverReq(c) {
				add(3, fmt.Sprintf("req:%d", ci), func() { w.deliverReq(c) })
			}
			if c.connected {
				add(1, fmt.Sprintf("cut:%d", ci), func() {
					r.Fault("stream_cut")
					if w.hasParkedSend(c) {
						r.Probe("cut_mid_push")
						r.NonTriv = true
					}
					r.Logf("%s: stream cut (parked send=%v, queued requests=%d)", c.name, w.hasParkedSend(c), len(c.outq))
					w.cut(c)
				})
			} else {
				add(2, fmt.Sprintf("reconnect:%d", ci), func() { reconnect(c) })
			}
		}
		for _, k := range w.parkedHooks() {
			k := k
			add(2, "release:"+k, func() {
				r.Logf("release %s", k)
				w.releaseHook(k)
			})
		}
		if allowRestart {
			add(1, "restart", func() {
				// istiod restart: all its streams die; a new instance is assembled over the surviving API-server state
				idx := tp.Choose(len(insts), "restartWhich")
				old := insts[idx]
				r.Fault("istiod_restart")
				r.Logf("%s restarts", old.name)
				for _, c := range w.clients {
					if c.connected && c.inst == old {
						w.cut(c)
					}
				}
				o := old.opts
				o.configs = old.snapshotConfigs()
				old.Close()
				synctest.Wait()
				insts[idx] = newWisInstance(t, old.name, o)
				if idx == 0 {
					w.inst = insts[0]
				}
			})
		}
		a := acts[tp.Choose(len(acts), "act")]
		tp.Note(a.name)
		a.fn()
		for _, c := range w.clients {
			w.reapStream(c)
		}
	}
	if r.Failed() {
		return
	}
	// faults stop: everybody reconnects, everything is delivered
	w.drainHooks()
	for _, c := range w.clients {
		w.reapStream(c)
		if !c.connected {
			reconnect(c)
		}
	}
	if !quiesceAll() {
		r.Inconclusive = "no final quiescence"
		r.Probe("no_quiescence")
		return
	}
	if missed {
		r.NonTriv = true
	}
	// oracle 1: equality with a fresh replica
	o := insts[0].opts
	o.configs = insts[0].snapshotConfigs()
	for _, i := range insts {
		var ks []string
		for _, c := range i.snapshotConfigs() {
			ks = append(ks, cfgKey(c))
		}
		r.Logf("final state of %s: %v", i.name, ks)
	}
	fresh, ok := w.freshViews(o, w.clients)
	if !ok {
		r.Inconclusive = "fresh replica did not quiesce"
		return
	}
	r.Probe("checkpoints")
	names := make([]string, 0, len(w.clients))
	for _, c := range w.clients {
		names = append(names, c.name)
	}
	sort.Strings(names)
	for _, c := range w.clients {
		d := diffViews(c.heldView(), fresh[c.name])
		if len(d) > 0 {
			key := wd.everTags() + "|" + d[0].typ + ":" + d[0].kind
			if d[0].field != "" {
				key += ":" + d[0].field
			}
			tail := 8
			if os.Getenv("VERIF_DEBUG_LOGS") != "" {
				tail = 40
			}
			for _, l := range c.sentLog[max(0, len(c.sentLog)-tail):] {
				r.Logf("  %s sent: %s", c.name, l)
			}
			for i := max(0, len(c.recvLog)-tail); i < len(c.recvLog); i++ {
				e := c.recvLog[i]
				r.Logf("  %s recv[%d] step=%d %s names=%v removed=%v", c.name, i, e.step, shortType(e.typeURL), e.names, e.removed)
			}
			if os.Getenv("VERIF_DEBUG_LOGS") != "" {
				rec, ok := serverRecord(c.inst, c, "type.googleapis.com/envoy.config.cluster.v3.Cluster")
				r.Logf("  debug: server record of %s for %s (exists=%v): %v", d[0].typ, c.name, ok, rec)
			}
			r.Fail("c05.not_resynchronised", key, "after reconnects: client %s (delta=%v, %d streams) differs from a fresh control plane:%s", c.name, c.delta, c.streams, fmtDiffs(d))
			return
		}
		// oracle 2: nothing stays warming
		if c.warmPending {
			for _, l := range c.sentLog[max(0, len(c.sentLog)-8):] {
				r.Logf("  %s sent: %s", c.name, l)
			}
			r.Fail("c05.subscription_unanswered", wd.everTags()+"|warming", "client %s (delta=%v): on its current stream the endpoint request preceded the cluster request; after the cluster response it asked for the endpoints of the warming clusters again and was never answered (clusters would stay warming)", c.name, c.delta)
			return
		}
		if u := c.unanswered(); len(u) > 0 {
			for _, l := range c.sentLog[max(0, len(c.sentLog)-8):] {
				r.Logf("  %s sent: %s", c.name, l)
			}
			r.Fail("c05.subscription_unanswered", wd.everTags()+"|"+shortTypeOf(u[0]), "client %s (delta=%v): re-sent subscription never answered on its current stream (would stay warming): %v", c.name, c.delta, u)
			return
		}
	}
	for _, c := range w.clients {
		w.cut(c)
	}
}

func shortTypeOf(s string) string {
	for i := 0; i < len(s); i++ {
		if s[i] == '/' {
			return s[:i]
		}
	}
	return s
}
