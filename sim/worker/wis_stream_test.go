package worker

import (
	"context"
	"io"
	"net"
	"sync"

	discovery "github.com/envoyproxy/go-control-plane/envoy/service/discovery/v3"
	"google.golang.org/grpc/codes"
	"google.golang.org/grpc/credentials"
	"google.golang.org/grpc/metadata"
	"google.golang.org/grpc/peer"
	"google.golang.org/grpc/status"
)

// simStream is the simulator-owned transport: an in-memory, ordered, reliable bidirectional stream
// implementing the gRPC server-stream interface istiod's Stream/StreamDeltas accept. Send and Recv
// park (durably, on channels) until the simulator lets them proceed, fail, or cuts the stream.
type simStream[Req any, Resp any] struct {
	ctx    context.Context
	cancel context.CancelFunc

	mu       sync.Mutex
	pending  *Resp      // response the server is currently trying to send (nil if none)
	sendDone chan error // completes the parked Send
	inRecv   bool
	recvCh   chan recvItem[Req]
	closed   bool
	sends    int
}

type recvItem[Req any] struct {
	req *Req
	err error
}

type simAddr string

func (a simAddr) Network() string { return "sim" }
func (a simAddr) String() string  { return string(a) }

var _ net.Addr = simAddr("")

func newSimStream[Req any, Resp any](parent context.Context, addr string, auth credentials.AuthInfo) *simStream[Req, Resp] {
	ctx, cancel := context.WithCancel(parent)
	ctx = peer.NewContext(ctx, &peer.Peer{Addr: simAddr(addr), AuthInfo: auth})
	return &simStream[Req, Resp]{ctx: ctx, cancel: cancel, recvCh: make(chan recvItem[Req])}
}

func (s *simStream[Req, Resp]) Send(r *Resp) error {
	ch := make(chan error, 1)
	s.mu.Lock()
	if s.closed {
		s.mu.Unlock()
		return status.Error(codes.Canceled, "stream closed")
	}
	s.pending = r
	s.sendDone = ch
	s.sends++
	s.mu.Unlock()
	select {
	case err := <-ch:
		return err
	case <-s.ctx.Done():
		s.mu.Lock()
		s.pending = nil
		s.sendDone = nil
		s.mu.Unlock()
		return status.Error(codes.Canceled, "context canceled")
	}
}

func (s *simStream[Req, Resp]) Recv() (*Req, error) {
	s.mu.Lock()
	s.inRecv = true
	s.mu.Unlock()
	defer func() {
		s.mu.Lock()
		s.inRecv = false
		s.mu.Unlock()
	}()
	select {
	case it := <-s.recvCh:
		return it.req, it.err
	case <-s.ctx.Done():
		return nil, status.Error(codes.Canceled, "context canceled")
	}
}

// --- simulator side ---------------------------------------------------------------------------

// ParkedSend returns the response the server is blocked sending, or nil.
func (s *simStream[Req, Resp]) ParkedSend() *Resp {
	s.mu.Lock()
	defer s.mu.Unlock()
	return s.pending
}

// CompleteSend lets the parked Send return err (nil = delivered).
func (s *simStream[Req, Resp]) CompleteSend(err error) {
	s.mu.Lock()
	ch := s.sendDone
	s.pending = nil
	s.sendDone = nil
	s.mu.Unlock()
	if ch != nil {
		ch <- err
	}
}

// InRecv reports that the server's receive goroutine is parked in Recv.
func (s *simStream[Req, Resp]) InRecv() bool {
	s.mu.Lock()
	defer s.mu.Unlock()
	return s.inRecv
}

// Deliver hands one request to the parked Recv. Only call when InRecv().
func (s *simStream[Req, Resp]) Deliver(r *Req) {
	s.recvCh <- recvItem[Req]{req: r}
}

// CloseFromClient makes Recv return io.EOF (client closed its side) and then cancels the context,
// which is what a gRPC server stream observes when the client goes away.
func (s *simStream[Req, Resp]) Cut() {
	s.mu.Lock()
	s.closed = true
	s.mu.Unlock()
	s.cancel()
}

func (s *simStream[Req, Resp]) Alive() bool {
	s.mu.Lock()
	defer s.mu.Unlock()
	return !s.closed
}

var _ = io.EOF

// grpc.ServerStream
func (s *simStream[Req, Resp]) SetHeader(metadata.MD) error  { return nil }
func (s *simStream[Req, Resp]) SendHeader(metadata.MD) error { return nil }
func (s *simStream[Req, Resp]) SetTrailer(metadata.MD)       {}
func (s *simStream[Req, Resp]) Context() context.Context     { return s.ctx }
func (s *simStream[Req, Resp]) SendMsg(m any) error          { return s.Send(m.(*Resp)) }
func (s *simStream[Req, Resp]) RecvMsg(m any) error          { return status.Error(codes.Unimplemented, "RecvMsg") }

type sotwStream = simStream[discovery.DiscoveryRequest, discovery.DiscoveryResponse]
type deltaStream = simStream[discovery.DeltaDiscoveryRequest, discovery.DeltaDiscoveryResponse]
