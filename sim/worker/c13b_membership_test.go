package worker

import (
	"fmt"
	"sort"
	"strings"
	"testing"
	"testing/synctest"
	"time"

	core "github.com/envoyproxy/go-control-plane/envoy/config/core/v3"
	endpointv3 "github.com/envoyproxy/go-control-plane/envoy/config/endpoint/v3"
	"google.golang.org/protobuf/proto"

	networking "istio.io/api/networking/v1alpha3"
	"istio.io/istio/pilot/pkg/features"
	"istio.io/istio/pilot/pkg/model"
	"istio.io/istio/pilot/pkg/serviceregistry/provider"
	v3 "istio.io/istio/pilot/pkg/xds/v3"
	"istio.io/istio/pkg/cluster"
	"istio.io/istio/pkg/config"
	"istio.io/istio/pkg/config/schema/gvk"
	"istio.io/istio/pkg/config/schema/kind"
	"istio.io/istio/pkg/network"
	"istio.io/istio/pkg/simhook"
	"istio.io/istio/pkg/util/sets"
	"verif/sim/engine"
)

// C13 (b): membership. The registries are simulated parties speaking the model.XDSUpdater interface of the
// real DiscoveryServer (EDSUpdate, EDSCacheUpdate, SvcUpdate, RemoveShard), each under its own shard key; the
// harness therefore knows every registry's last report without trusting the index. Oracle at checkpoints:
// every EDS cluster a proxy holds has exactly the union of the registries' last reports for that service,
// filtered by port, subset labels and health, grouped by locality with consistent weights.

func init() { register("c13b", "C13", runC13b) }

// the one east-west gateway of network net2 in the multi-network stratum
const c13GatewayAddr = "2.2.2.2"

type mEp struct {
	addr     string
	version  string
	locality string
	weight   uint32
	healthy  bool
	sa       string
	cluster  string // cluster of the reporting registry
	local    bool   // discoverable only from proxies of the same cluster (what MCS assigns to cluster-local endpoints)
	network  string // network of the reporting registry ("" in a single-network mesh)
}

func (e mEp) String() string {
	h := "H"
	if !e.healthy {
		h = "U"
	}
	if e.local {
		h += "/only-" + e.cluster
	}
	if e.network != "" {
		h += "/" + e.network
	}
	return fmt.Sprintf("%s/%s/%s/w%d/%s", e.addr, e.version, e.locality, e.weight, h)
}

func (e mEp) istio(ns string) *model.IstioEndpoint {
	hs := model.Healthy
	if !e.healthy {
		hs = model.UnHealthy
	}
	ep := &model.IstioEndpoint{
		Addresses:       []string{e.addr},
		ServicePortName: "http",
		EndpointPort:    8080,
		Labels:          map[string]string{"version": e.version},
		Locality:        model.Locality{Label: e.locality, ClusterID: "Kubernetes"},
		LbWeight:        e.weight,
		HealthStatus:    hs,
		ServiceAccount:  e.sa,
		Namespace:       ns,
		WorkloadName:    "wl-" + e.addr,
	}
	if e.local {
		ep.Locality.ClusterID = cluster.ID(e.cluster)
		ep.DiscoverabilityPolicy = model.DiscoverableFromSameCluster
	}
	if e.network != "" {
		// a multi-network mesh: the registry stamps its network; workloads of such a mesh speak Istio mutual TLS
		// (cross-network traffic is routed by SNI at the east-west gateway)
		ep.Network = network.ID(e.network)
		ep.TLSMode = model.IstioMutualTLSModeLabel
	}
	return ep
}

func runC13b(t *testing.T, r *engine.Run) {
	tp := r.T
	bubbleInit()
	defer simhook.SetHook(nil)
	prevU := features.DefaultSendUnhealthyEndpoints.Load()
	features.DefaultSendUnhealthyEndpoints.Store(false) // restricted domain: unhealthy endpoints are never "explicitly allowed"
	defer features.DefaultSendUnhealthyEndpoints.Store(prevU)
	db := debounceCfg{after: 10 * time.Millisecond, max: 50 * time.Millisecond}
	hosts := []string{"s1.example.com", "s2.example.com"}
	var cfgs []config.Config
	for i, h := range hosts {
		cfgs = append(cfgs, config.Config{
			Meta: config.Meta{GroupVersionKind: gvk.ServiceEntry, Name: fmt.Sprintf("svc%d", i+1), Namespace: "a", CreationTimestamp: wlT0},
			Spec: &networking.ServiceEntry{Hosts: []string{h}, Resolution: networking.ServiceEntry_STATIC, Location: networking.ServiceEntry_MESH_INTERNAL,
				Ports: []*networking.ServicePort{{Number: 80, Name: "http", Protocol: "HTTP"}, {Number: 9090, Name: "tcp", Protocol: "TCP"}}},
		})
	}
	withSubsets := tp.Bool(1, 2, "subsets")
	if withSubsets {
		cfgs = append(cfgs, config.Config{
			Meta: config.Meta{GroupVersionKind: gvk.DestinationRule, Name: "dr", Namespace: "a", CreationTimestamp: wlT0},
			Spec: &networking.DestinationRule{Host: hosts[0], Subsets: []*networking.Subset{
				{Name: "v1", Labels: map[string]string{"version": "v1"}}, {Name: "v2", Labels: map[string]string{"version": "v2"}}}},
		})
	}
	// Multi-network stratum: registry 1 reports from network net2, which the proxies (all on net1) reach only through
	// one east-west gateway; every other registry is on net1. Split-horizon EDS then replaces the net2 members of each
	// locality by the gateway, weighted by what stands behind it.
	multiNet := tp.Bool(1, 3, "multiNetwork")
	var gws []model.NetworkGateway
	if multiNet {
		gws = []model.NetworkGateway{{Network: "net2", Cluster: "c1", Addr: c13GatewayAddr, Port: 15443}}
	}
	netOf := func(reg int) string {
		if !multiNet {
			return ""
		}
		if reg == 1 {
			return "net2"
		}
		return "net1"
	}
	inst := newWisInstance(t, "main", wisOpts{debounceAfter: db.after, debounceMax: db.max, configs: cfgs, gateways: gws})
	defer func() {
		inst.Close()
		synctest.Wait()
	}()
	w := newWis(t, r, inst)
	defer w.cancel()
	spec := clientMenu[0]
	if multiNet {
		spec.meta = func(m *model.NodeMetadata) { m.Network = "net1" }
	}
	c := spec.build(false)
	w.addClient(c)
	w.connect(c, inst, false)
	// a second proxy, identical but for its cluster: cluster-local endpoints of registry 0 are visible to it only
	c0 := clientMenu[0].build(false)
	c0.name += "-c0"
	c0md := &model.NodeMetadata{Namespace: "a", Labels: map[string]string{"app": "foo"}, ClusterID: "c0", IstioVersion: "1.30.0"}
	if multiNet {
		c0md.Network = "net1"
	}
	c0.node = &core.Node{Id: "sidecar~10.3.0.9~foo-c0.a~a.svc.cluster.local", Metadata: c0md.ToStruct(), Locality: c.node.Locality}
	twoClusters := tp.Bool(1, 2, "twoClusters")
	if twoClusters {
		w.addClient(c0)
		w.connect(c0, inst, false)
	}
	if !w.quiesce(inst, w.clients) {
		r.Inconclusive = "no initial quiescence"
		return
	}
	nreg := 2 + tp.Choose(2, "nreg")
	shard := func(i int) model.ShardKey {
		return model.ShardKey{Cluster: cluster.ID(fmt.Sprintf("c%d", i)), Provider: provider.Kubernetes}
	}
	// last report per registry and service: the independent truth
	last := make([]map[string][]mEp, nreg)
	for i := range last {
		last[i] = map[string][]mEp{}
	}
	s := inst.fds.Discovery
	w.enableHooks("epindex.update.afterLookup", "task")
	epSeq := 0
	type op struct {
		desc string
		fn   func()
	}
	progs := make([][]op, nreg)
	nops := 4 + tp.Choose(16, "nops")
	localities := []string{"region1/zone1", "region1/zone2", "region2/zone1"}
	for k := 0; k < nops; k++ {
		reg := tp.Choose(nreg, "reg")
		h := hosts[tp.Choose(len(hosts), "host")]
		switch x := tp.Choose(12, "op"); {
		case x < 8:
			var eps []mEp
			n := tp.Choose(4, "neps")
			if tp.Bool(1, 5, "resend") && len(last[reg][h]) > 0 {
				eps = append(eps, last[reg][h]...)
				if tp.Bool(1, 2, "flip") {
					eps[0].healthy = !eps[0].healthy
				}
				if tp.Bool(1, 3, "replace") && len(eps) > 0 {
					// a known endpoint is replaced by a new, not yet healthy one (rolling update)
					epSeq++
					eps[len(eps)-1] = mEp{addr: fmt.Sprintf("10.%d.0.%d", reg+1, epSeq), version: "v1", locality: localities[0], weight: 1, healthy: false, network: netOf(reg)}
				}
			} else {
				for j := 0; j < n; j++ {
					epSeq++
					eps = append(eps, mEp{
						addr:     fmt.Sprintf("10.%d.0.%d", reg+1, epSeq),
						version:  []string{"v1", "v2"}[tp.Choose(2, "ver")],
						locality: localities[tp.Choose(len(localities), "loc")],
						weight:   uint32(1 + tp.Choose(3, "w")),
						healthy:  !tp.Bool(1, 4, "unhealthy"),
						sa:       []string{"", "sa1"}[tp.Choose(2, "sa")],
						cluster:  fmt.Sprintf("c%d", reg),
						local:    twoClusters && tp.Bool(1, 3, "clusterLocal"),
						network:  netOf(reg),
					})
				}
			}
			cacheOnly := tp.Bool(1, 8, "cacheOnly")
			final := append([]mEp(nil), eps...)
			progs[reg] = append(progs[reg], op{fmt.Sprintf("EDSUpdate(sh%d,%s,%v cacheOnly=%v)", reg, h, final, cacheOnly), func() {
				var ie []*model.IstioEndpoint
				for _, e := range final {
					ie = append(ie, e.istio("a"))
				}
				if cacheOnly {
					s.EDSCacheUpdate(shard(reg), h, "a", ie)
					// a registry that only updates the cache follows up with a service-level push
					s.ConfigUpdate(&model.PushRequest{ConfigsUpdated: sets.New(model.ConfigKey{Kind: kind.ServiceEntry, Name: h, Namespace: "a"}), Reason: model.NewReasonStats(model.ServiceUpdate)})
				} else {
					s.EDSUpdate(shard(reg), h, "a", ie)
				}
			}})
			last[reg][h] = final
		case x < 10:
			progs[reg] = append(progs[reg], op{fmt.Sprintf("SvcUpdate(sh%d,%s,delete)", reg, h), func() {
				s.SvcUpdate(shard(reg), h, "a", model.EventDelete)
				s.ConfigUpdate(&model.PushRequest{ConfigsUpdated: sets.New(model.ConfigKey{Kind: kind.ServiceEntry, Name: h, Namespace: "a"}), Reason: model.NewReasonStats(model.ServiceUpdate)})
			}})
			last[reg][h] = nil
		default:
			progs[reg] = append(progs[reg], op{fmt.Sprintf("RemoveShard(sh%d)", reg), func() {
				s.RemoveShard(shard(reg))
				s.ConfigUpdate(&model.PushRequest{Forced: true, Reason: model.NewReasonStats(model.ClusterUpdate)})
			}})
			last[reg] = map[string][]mEp{}
		}
	}
	// NOTE: `last` above is the final truth only; the per-step truth is tracked while the programs execute.
	cur := make([]map[string][]mEp, nreg)
	for i := range cur {
		cur[i] = map[string][]mEp{}
	}
	_ = cur
	done := make([]int, nreg)
	for reg := 0; reg < nreg; reg++ {
		reg := reg
		go func() {
			for _, o := range progs[reg] {
				w.sched.Yield("task", fmt.Sprintf("r%d", reg))
				o.fn()
				done[reg]++
			}
		}()
	}
	synctest.Wait()
	r.Logf("registries=%d subsets=%v ops=%d multiNetwork=%v", nreg, withSubsets, nops, multiNet)
	for steps := 0; steps < 400 && !r.Failed(); steps++ {
		r.Steps++
		parked := w.parkedHooks()
		var acts []string
		acts = append(acts, parked...)
		acts = append(acts, parked...)
		for ci, cl := range w.clients {
			if w.hasParkedSend(cl) {
				acts = append(acts, fmt.Sprintf("resp:%d", ci))
			}
			if w.canDeliverReq(cl) {
				acts = append(acts, fmt.Sprintf("req:%d", ci))
			}
		}
		if len(parked) == 0 {
			break
		}
		acts = append(acts, "gap")
		a := acts[tp.Choose(len(acts), "act")]
		tp.Note(a)
		var ci int
		switch {
		case strings.HasPrefix(a, "resp:"):
			fmt.Sscanf(a, "resp:%d", &ci)
			w.deliverResp(w.clients[ci])
		case strings.HasPrefix(a, "req:"):
			fmt.Sscanf(a, "req:%d", &ci)
			w.deliverReq(w.clients[ci])
		case a == "gap":
			w.gap(tp, db)
		default:
			for _, k := range parked {
				if strings.HasPrefix(k, "epindex.") && k != a {
					r.Probe("op_while_update_parked")
					r.NonTriv = true
				}
			}
			if strings.HasPrefix(a, "task|") {
				var reg int
				fmt.Sscanf(a, "task|r%d", &reg)
				if done[reg] < len(progs[reg]) {
					r.Logf("r%d: %s", reg, progs[reg][done[reg]].desc)
				}
			}
			w.releaseHook(a)
		}
	}
	w.drainHooks()
	if !w.quiesce(inst, w.clients) {
		r.Inconclusive = "no final quiescence"
		return
	}
	r.Probe("checkpoints")
	// ---- membership oracle (per proxy: a cluster-local endpoint is visible only from its own cluster)
	for _, cl := range w.clients {
		proxyCluster := "Kubernetes"
		if cl == c0 {
			proxyCluster = "c0"
		}
		held := cl.heldView()[v3.EndpointType]
		names := make([]string, 0, len(held))
		for n := range held {
			names = append(names, n)
		}
		sort.Strings(names)
		for _, cn := range names {
			_, subset, host, port := model.ParseSubsetKey(cn)
			if port != 80 || !contains(hosts, string(host)) {
				continue
			}
			want := map[string]mEp{}
			for reg := 0; reg < nreg; reg++ {
				for _, e := range last[reg][string(host)] {
					if !e.healthy {
						continue
					}
					if subset != "" && e.version != subset {
						continue
					}
					if e.local && e.cluster != proxyCluster {
						continue
					}
					want[e.addr] = e
				}
			}
			cla := &endpointv3.ClusterLoadAssignment{}
			if err := proto.Unmarshal(held[cn], cla); err != nil {
				r.Fail("c13.bad_cla", cn, "cannot parse %s", cn)
				return
			}
			// held: one entry per (locality, address); an address may legitimately appear in several localities (the gateway)
			got := map[string]string{}
			for _, l := range cla.Endpoints {
				loc := l.Locality.GetRegion() + "/" + l.Locality.GetZone()
				var sum uint32
				for _, le := range l.LbEndpoints {
					a := le.GetEndpoint().GetAddress().GetSocketAddress()
					wgt := le.GetLoadBalancingWeight().GetValue()
					sum += wgt
					k := loc + "|" + a.GetAddress()
					if _, dup := got[k]; dup {
						r.Fail("c13.membership", shortSubset(subset), "cluster %s: proxy %s holds %s twice in locality %s", cn, cl.name, a.GetAddress(), loc)
						return
					}
					got[k] = fmt.Sprintf("%s:%d@%s/w%d", a.GetAddress(), a.GetPortValue(), loc, wgt)
				}
				if lw := l.GetLoadBalancingWeight().GetValue(); lw != sum {
					r.Fail("c13.locality_weight", cn, "cluster %s locality %s: locality weight %d != sum of endpoint weights %d", cn, loc, lw, sum)
					return
				}
			}
			// wanted: members on the proxy's network as they are; the members of a locality on the other network are
			// reached through the gateway of that network, which carries their total weight in that locality
			wantS := map[string]string{}
			behindGw := map[string]uint32{}
			for a, e := range want {
				if e.local {
					r.Probe("cluster_local_endpoint_compared")
				}
				if e.network != "" && e.network != "net1" {
					behindGw[e.locality] += e.weight
					r.Probe("remote_network_endpoint_compared")
					continue
				}
				wantS[e.locality+"|"+a] = fmt.Sprintf("%s:%d@%s/w%d", a, 8080, e.locality, e.weight)
			}
			for loc, wgt := range behindGw {
				wantS[loc+"|"+c13GatewayAddr] = fmt.Sprintf("%s:%d@%s/w%d", c13GatewayAddr, 15443, loc, wgt)
			}
			if len(behindGw) > 1 {
				r.Probe("gateway_in_several_localities")
			}
			r.Probe("clusters_compared")
			if len(want) > 0 {
				r.Probe("nonempty_clusters_compared")
			}
			gk, wk := sortedMapVals(got), sortedMapVals(wantS)
			if strings.Join(gk, " ") != strings.Join(wk, " ") {
				r.Fail("c13.membership", shortSubset(subset), "cluster %s: proxy %s (cluster %s) holds %v, the registries' last healthy reports visible to it are %v", cn, cl.name, proxyCluster, gk, wk)
				return
			}
		}
	}
	for _, cl := range w.clients {
		w.cut(cl)
	}
}

func sortedMapVals(m map[string]string) []string {
	out := make([]string, 0, len(m))
	for _, v := range m {
		out = append(out, v)
	}
	sort.Strings(out)
	return out
}

func shortSubset(s string) string {
	if s == "" {
		return "base"
	}
	return "subset"
}
