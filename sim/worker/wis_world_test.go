package worker

import (
	"os"
	"context"
	"crypto/sha256"
	"encoding/hex"
	"fmt"
	"sort"
	"strings"
	"sync"
	"testing"
	"testing/synctest"
	"time"

	clusterv3 "github.com/envoyproxy/go-control-plane/envoy/config/cluster/v3"
	core "github.com/envoyproxy/go-control-plane/envoy/config/core/v3"
	endpointv3 "github.com/envoyproxy/go-control-plane/envoy/config/endpoint/v3"
	listenerv3 "github.com/envoyproxy/go-control-plane/envoy/config/listener/v3"
	routev3 "github.com/envoyproxy/go-control-plane/envoy/config/route/v3"
	discovery "github.com/envoyproxy/go-control-plane/envoy/service/discovery/v3"
	"golang.org/x/time/rate"
	"google.golang.org/grpc/codes"
	"google.golang.org/grpc/credentials"
	"google.golang.org/grpc/status"
	"google.golang.org/protobuf/encoding/prototext"
	"google.golang.org/protobuf/proto"
	"google.golang.org/protobuf/types/known/durationpb"
	"k8s.io/apimachinery/pkg/runtime"

	meshconfig "istio.io/api/mesh/v1alpha1"
	"istio.io/istio/pilot/pkg/features"
	"istio.io/istio/pilot/pkg/model"
	xdsfake "istio.io/istio/pilot/test/xds"
	"istio.io/istio/pkg/config"
	"istio.io/istio/pkg/config/mesh"
	"istio.io/istio/pkg/config/mesh/meshwatcher"
	"istio.io/istio/pkg/config/schema/collections"
	kubelib "istio.io/istio/pkg/kube"
	istiolog "istio.io/istio/pkg/log"
	"istio.io/istio/pkg/security"
	"istio.io/istio/pkg/simhook"
	"verif/sim/engine"
)

// simFailer is the test.Failer handed to the repository's own assembly helper. Cleanups are
// collected so that an instance (e.g. a fresh-replica oracle) can be shut down mid-run.
type simFailer struct {
	*testing.T
	mu       sync.Mutex
	cleanups []func()
	failed   string
}

func (f *simFailer) Cleanup(fn func()) {
	f.mu.Lock()
	f.cleanups = append(f.cleanups, fn)
	f.mu.Unlock()
}

func (f *simFailer) Close() {
	f.mu.Lock()
	cs := f.cleanups
	f.cleanups = nil
	f.mu.Unlock()
	for i := len(cs) - 1; i >= 0; i-- {
		cs[i]()
	}
}

func (f *simFailer) Fatal(args ...any) {
	f.failed = fmt.Sprint(args...)
	panic("simFailer.Fatal: " + f.failed)
}

func (f *simFailer) Fatalf(format string, args ...any) {
	f.failed = fmt.Sprintf(format, args...)
	panic("simFailer.Fatalf: " + f.failed)
}
func (f *simFailer) FailNow() { panic("simFailer.FailNow") }
func (f *simFailer) Fail()    { f.failed = "Fail()" }

var quietOnce sync.Once

func quietLogs() {
	quietOnce.Do(func() {
		for _, s := range istiolog.Scopes() {
			s.SetOutputLevel(istiolog.NoneLevel)
		}
	})
}

// simIdentityKey carries the credential identities of a simulated TLS stream to the simulator's authenticator.
type simIdentityKey struct{}

// simAuthenticator is the stub for xDS authentication (the seam istiod already has): it reports the identities the
// simulated client was given.
type simAuthenticator struct{}

func (simAuthenticator) AuthenticatorType() string { return "sim" }
func (simAuthenticator) Authenticate(ctx security.AuthContext) (*security.Caller, error) {
	ids, _ := ctx.GrpcContext.Value(simIdentityKey{}).([]string)
	if ids == nil {
		return nil, fmt.Errorf("no credential")
	}
	return &security.Caller{AuthSource: security.AuthSourceClientCertificate, Identities: ids}, nil
}

type wisOpts struct {
	kubeModifier  func(c kubelib.Client)
	debounceAfter time.Duration
	debounceMax   time.Duration
	configs       []config.Config
	kubeObjects   []runtime.Object
	noCache       bool
	// meshVariant selects the mesh configuration (simMesh); it changes at run time through setMesh, as a reload of
	// the mesh ConfigMap would, and a replica built from these options starts with the current one
	meshVariant int
	// gateways are the east-west gateways of the mesh networks (a multi-network mesh when non-empty)
	gateways []model.NetworkGateway
}

// simMesh is the mesh configuration of every simulated control plane: the default plus one access-log-service
// extension provider that resolves to a host of the workload's pool. Variant bits: 1 = file access log on,
// 2 = outbound traffic policy REGISTRY_ONLY, 4 = connect timeout 3s (an input of every cached cluster).
func simMesh(variant int) *meshconfig.MeshConfig {
	m := mesh.DefaultMeshConfig()
	m.ExtensionProviders = append(m.ExtensionProviders, &meshconfig.MeshConfig_ExtensionProvider{
		Name: "als",
		Provider: &meshconfig.MeshConfig_ExtensionProvider_EnvoyHttpAls{
			EnvoyHttpAls: &meshconfig.MeshConfig_ExtensionProvider_EnvoyHttpGrpcV3LogProvider{Service: alsHost, Port: 80},
		},
	})
	if variant&1 != 0 {
		m.AccessLogFile = "/dev/stdout"
	}
	if variant&4 != 0 {
		m.ConnectTimeout = durationpb.New(3 * time.Second)
	}
	if variant&2 != 0 {
		m.OutboundTrafficPolicy = &meshconfig.MeshConfig_OutboundTrafficPolicy{Mode: meshconfig.MeshConfig_OutboundTrafficPolicy_REGISTRY_ONLY}
	}
	return m
}

// setMesh replaces the mesh configuration of a running instance; the registered mesh handler (the one
// bootstrap.initMeshHandlers installs) then requests the forced global push.
func (i *wisInstance) setMesh(variant int) {
	i.opts.meshVariant = variant
	if os.Getenv("VERIF_DEBUG_MESH") != "" {
		fmt.Fprintf(os.Stderr, "debug-mesh: %s setMesh(%d) at %s\n", i.name, variant, time.Now().Format("15:04:05.000"))
	}
	i.fds.Env().Watcher.(meshwatcher.TestWatcher).Set(simMesh(variant))
}

type wisInstance struct {
	name string
	f    *simFailer
	fds  *xdsfake.FakeDiscoveryServer
	opts wisOpts
}

// bubbleInit must be called once at the start of every run (inside the bubble).
func bubbleInit() {
	quietLogs()
	simhook.SetSpinWait(true)
	simhook.SetHook(nil)
	model.VerifResetGlobals()
	// the periodic cache-index flush is offered to the simulator as an explicit action instead
	features.XDSCacheIndexClearInterval = 1000 * time.Hour
}

func newWisInstance(t *testing.T, name string, o wisOpts) *wisInstance {
	f := &simFailer{T: t}
	features.DebounceMax = o.debounceMax
	prevCache := features.EnableXDSCaching
	if o.noCache {
		features.EnableXDSCaching = false
	}
	fds := xdsfake.NewFakeDiscoveryServer(f, xdsfake.FakeOptions{
		DebounceTime:       o.debounceAfter,
		Configs:            o.configs,
		KubernetesObjects:  o.kubeObjects,
		KubeClientModifier: o.kubeModifier,
		MeshConfig:         simMesh(o.meshVariant),
		Gateways:           o.gateways,
	})
	features.EnableXDSCaching = prevCache
	// what bootstrap.initMeshHandlers does: a mesh configuration change requests a forced global push
	fds.Env().AddMeshHandler(func() {
		if os.Getenv("VERIF_DEBUG_MESH") != "" {
			fmt.Fprintf(os.Stderr, "debug-mesh: %s handler fires at %s, otp=%v\n", name, time.Now().Format("15:04:05.000"), fds.Env().Mesh().GetOutboundTrafficPolicy().GetMode())
		}
		fds.Discovery.ConfigUpdate(&model.PushRequest{Reason: model.NewReasonStats(model.GlobalUpdate), Forced: true})
	})
	// The connection rate limit is derived from GOMAXPROCS at process start; it belongs to no property and would make
	// the schedule depend on the worker's core count. Limit 0 = opt out (WaitForRequestLimit returns at once).
	fds.Discovery.RequestRateLimit = rate.NewLimiter(0, 1)
	return &wisInstance{name: name, f: f, fds: fds, opts: o}
}

func (i *wisInstance) Close() { i.f.Close() }

// snapshotConfigs returns deep copies of every config object in the instance's store.
func (i *wisInstance) snapshotConfigs() []config.Config {
	// Only the kinds the workload writes: the aggregate store also lists objects the control plane derives
	// itself (e.g. a TrafficExtension translated from a WasmPlugin), which are not API-server state.
	var out []config.Config
	for _, s := range collections.Pilot.All() {
		base := false
		for _, g := range kindGVK {
			if g == s.GroupVersionKind() {
				base = true
			}
		}
		if !base {
			continue
		}
		for _, c := range i.fds.Store().List(s.GroupVersionKind(), "") {
			out = append(out, c.DeepCopy())
		}
	}
	sort.Slice(out, func(a, b int) bool {
		ka := out[a].GroupVersionKind.String() + "/" + out[a].Namespace + "/" + out[a].Name
		kb := out[b].GroupVersionKind.String() + "/" + out[b].Namespace + "/" + out[b].Name
		return ka < kb
	})
	return out
}

// ---- the driver ------------------------------------------------------------------------------

type wis struct {
	t       *testing.T
	r       *engine.Run
	inst    *wisInstance
	clients []*xdsClient
	t0      time.Time
	ctx     context.Context
	cancel  context.CancelFunc
	addrSeq int
	sched   *engine.Sched // yield-hook scheduler (nil = hooks pass through)
}

// enableHooks routes the repository's simhook yield points of the named kinds to this driver's scheduler.
// Hook keys name code locations and objects, not instances, so oracle replicas run in pass-through mode.
func (w *wis) enableHooks(points ...string) {
	w.sched = engine.NewSched()
	on := map[string]bool{}
	for _, p := range points {
		on[p] = true
	}
	w.sched.Filter = func(point, key string) bool { return on[point] }
	simhook.SetHook(w.sched.Yield)
}

func (w *wis) parkedHooks() []string {
	if w.sched == nil {
		return nil
	}
	return w.sched.Parked()
}

func (w *wis) releaseHook(k string) {
	w.sched.Release(k)
	synctest.Wait()
}

// drainHooks releases everything parked and makes later yields return at once.
func (w *wis) drainHooks() {
	if w.sched != nil {
		w.sched.Drain()
		synctest.Wait()
	}
}

func newWis(t *testing.T, r *engine.Run, inst *wisInstance) *wis {
	ctx, cancel := context.WithCancel(context.Background())
	return &wis{t: t, r: r, inst: inst, t0: time.Now(), ctx: ctx, cancel: cancel}
}

func (w *wis) now() time.Duration { return time.Since(w.t0) }

func (w *wis) advance(d time.Duration) {
	if d <= 0 {
		d = time.Microsecond
	}
	time.Sleep(d)
	synctest.Wait()
}

func (w *wis) addClient(c *xdsClient) {
	w.clients = append(w.clients, c)
	sort.Slice(w.clients, func(i, j int) bool { return w.clients[i].name < w.clients[j].name })
}

// connect opens a new simulated stream for c on inst and queues its initial requests.
func (w *wis) connect(c *xdsClient, inst *wisInstance, permuteDeps bool) {
	w.addrSeq++
	addr := fmt.Sprintf("10.9.0.%d:1234", w.addrSeq)
	c.streamEnd = make(chan error, 1)
	end := c.streamEnd
	c.streams++
	c.connected = true
	c.inst = inst
	parent := w.ctx
	var auth credentials.AuthInfo
	if c.tls {
		auth = credentials.TLSInfo{}
		parent = context.WithValue(parent, simIdentityKey{}, c.identities)
	}
	if c.delta {
		st := newSimStream[discovery.DeltaDiscoveryRequest, discovery.DeltaDiscoveryResponse](parent, addr, auth)
		c.dstr = st
		go func() {
			err := inst.fds.Discovery.StreamDeltas(st)
			st.Cut() // a gRPC server cancels the stream context when the handler returns
			end <- err
		}()
	} else {
		st := newSimStream[discovery.DiscoveryRequest, discovery.DiscoveryResponse](parent, addr, auth)
		c.sotw = st
		go func() {
			err := inst.fds.Discovery.Stream(st)
			st.Cut() // a gRPC server cancels the stream context when the handler returns
			end <- err
		}()
	}
	c.startStream(permuteDeps)
	synctest.Wait()
}

func (w *wis) hasParkedSend(c *xdsClient) bool {
	if !c.connected {
		return false
	}
	if c.delta {
		return c.dstr.ParkedSend() != nil
	}
	return c.sotw.ParkedSend() != nil
}

// parkedDesc describes the response parked in Send (type, nonce, resource names) for messages.
func (w *wis) parkedDesc(c *xdsClient) string {
	if !w.hasParkedSend(c) {
		return "none"
	}
	if c.delta {
		p := *c.dstr.ParkedSend()
		var names []string
		for _, r := range p.Resources {
			names = append(names, r.Name)
		}
		return fmt.Sprintf("%s nonce=%.8s resources=%v removed=%v", shortType(p.TypeUrl), p.Nonce, names, p.RemovedResources)
	}
	p := *c.sotw.ParkedSend()
	var names []string
	for _, a := range p.Resources {
		names = append(names, resourceName(p.TypeUrl, a))
	}
	return fmt.Sprintf("%s version=%s nonce=%.8s resources=%v", shortType(p.TypeUrl), p.VersionInfo, p.Nonce, names)
}

func (w *wis) canDeliverReq(c *xdsClient) bool {
	if !c.connected || len(c.outq) == 0 {
		return false
	}
	if c.delta {
		return c.dstr.InRecv()
	}
	return c.sotw.InRecv()
}

// deliverResp completes the parked Send of c and lets the client model process the response.
func (w *wis) deliverResp(c *xdsClient) {
	if c.delta {
		resp := c.dstr.ParkedSend()
		c.dstr.CompleteSend(nil)
		c.onDeltaResponse(w.r.Steps, resp)
	} else {
		resp := c.sotw.ParkedSend()
		c.sotw.CompleteSend(nil)
		c.onSotwResponse(w.r.Steps, resp)
	}
	synctest.Wait()
}

// failSend makes the parked Send of c return an error (the response is not delivered).
func (w *wis) failSend(c *xdsClient, code codes.Code) {
	err := status.Error(code, "simulated send failure")
	if c.delta {
		c.dstr.CompleteSend(err)
	} else {
		c.sotw.CompleteSend(err)
	}
	synctest.Wait()
	w.reapStream(c)
}

func (w *wis) deliverReq(c *xdsClient) {
	m := c.nextRequest()
	if c.delta {
		c.dstr.Deliver(m.(*discovery.DeltaDiscoveryRequest))
	} else {
		c.sotw.Deliver(m.(*discovery.DiscoveryRequest))
	}
	synctest.Wait()
	w.reapStream(c)
}

// cut severs the stream of c (network fault / forced close).
func (w *wis) cut(c *xdsClient) {
	if !c.connected {
		return
	}
	if c.delta {
		c.dstr.Cut()
	} else {
		c.sotw.Cut()
	}
	synctest.Wait()
	w.reapStream(c)
}

// reapStream notices that the server side of c's stream has returned.
func (w *wis) reapStream(c *xdsClient) {
	if !c.connected {
		return
	}
	select {
	case err := <-c.streamEnd:
		c.connected = false
		c.outq = nil
		w.r.Logf("%s: stream ended: %v", c.name, err)
	default:
	}
}

func (w *wis) pushIdle(inst *wisInstance) bool {
	s := inst.fds.Discovery
	// note: the sendPushes loop takes a semaphore slot before it blocks in Dequeue, so an idle server shows inflight == 1
	pending, processing, _ := s.VerifPushState()
	return s.InboundUpdates.Load() == s.CommittedUpdates.Load() && pending == 0 && processing == 0
}

// quiesce stops injecting, delivers everything and advances time until nothing is left to do.
func (w *wis) quiesce(inst *wisInstance, clients []*xdsClient) bool {
	stable := 0
	for iter := 0; iter < 400; iter++ {
		progress := false
		for _, c := range clients {
			w.reapStream(c)
			for n := 0; n < 50 && w.hasParkedSend(c); n++ {
				w.deliverResp(c)
				progress = true
			}
		}
		for _, c := range clients {
			for n := 0; n < 50 && w.canDeliverReq(c); n++ {
				w.deliverReq(c)
				progress = true
			}
		}
		if progress {
			stable = 0
			continue
		}
		waiting := false
		for _, c := range clients {
			if c.connected && len(c.outq) > 0 {
				waiting = true // requests not yet readable by the server (rate limiter, initialisation)
			}
		}
		if waiting {
			stable = 0
			w.advance(41 * time.Millisecond)
			continue
		}
		if w.pushIdle(inst) {
			stable++
			if stable >= 2 {
				return true
			}
			w.advance(inst.opts.debounceMax + inst.opts.debounceAfter + time.Millisecond)
		} else {
			stable = 0
			w.advance(inst.opts.debounceAfter/2 + time.Millisecond)
		}
	}
	pending, processing, inflight := inst.fds.Discovery.VerifPushState()
	w.r.Logf("quiesce failed: inbound=%d committed=%d pending=%d processing=%d inflight=%d", inst.fds.Discovery.InboundUpdates.Load(),
		inst.fds.Discovery.CommittedUpdates.Load(), pending, processing, inflight)
	for _, c := range clients {
		w.r.Logf("  client %s connected=%v parkedSend=%v outq=%d canDeliver=%v", c.name, c.connected, w.hasParkedSend(c), len(c.outq), w.canDeliverReq(c))
	}
	return false
}

// ---- observation / oracle helpers ----------------------------------------------------------------

func shortType(t string) string {
	if i := strings.LastIndex(t, "."); i >= 0 {
		return t[i+1:]
	}
	return t
}

func digestView(v map[string]map[string][]byte) string {
	h := sha256.New()
	var ts []string
	for t := range v {
		ts = append(ts, t)
	}
	sort.Strings(ts)
	for _, t := range ts {
		var ns []string
		for n := range v[t] {
			ns = append(ns, n)
		}
		sort.Strings(ns)
		for _, n := range ns {
			h.Write([]byte(t + "|" + n + "|"))
			h.Write(v[t][n])
		}
	}
	return hex.EncodeToString(h.Sum(nil))[:16]
}

type viewDiff struct {
	typ, name, kind string // kind: missing (fresh has it, client does not) | extra | content
	explain         string
	field           string // for content diffs: the proto field at which the two first differ
}

func diffViews(got, want map[string]map[string][]byte) []viewDiff {
	var out []viewDiff
	ts := map[string]struct{}{}
	for t := range got {
		ts[t] = struct{}{}
	}
	for t := range want {
		ts[t] = struct{}{}
	}
	for _, t := range sortedNames(ts) {
		g, w := got[t], want[t]
		ns := map[string]struct{}{}
		for n := range g {
			ns[n] = struct{}{}
		}
		for n := range w {
			ns[n] = struct{}{}
		}
		for _, n := range sortedNames(ns) {
			gb, gok := g[n]
			wb, wok := w[n]
			switch {
			case !gok:
				out = append(out, viewDiff{typ: shortType(t), name: n, kind: "missing"})
			case !wok:
				out = append(out, viewDiff{typ: shortType(t), name: n, kind: "extra"})
			case string(gb) != string(wb):
				d := viewDiff{typ: shortType(t), name: n, kind: "content"}
				if len(out) == 0 {
					d.explain, d.field = explainContent(t, gb, wb)
				}
				out = append(out, d)
			}
		}
	}
	return out
}

func fmtDiffs(d []viewDiff) string {
	var b strings.Builder
	for i, x := range d {
		if i >= 8 {
			fmt.Fprintf(&b, " ...(%d more)", len(d)-i)
			break
		}
		fmt.Fprintf(&b, " %s[%s]:%s", x.typ, x.name, x.kind)
	}
	if len(d) > 0 && d[0].explain != "" {
		b.WriteString("\n" + d[0].explain)
	}
	return b.String()
}

func cloneNode(n *core.Node) *core.Node {
	return &core.Node{Id: n.Id, Metadata: n.Metadata, Locality: n.Locality}
}

// freshViews assembles a new instance from configs/objects alone, connects fresh clients with the
// same identities and returns what they hold at quiescence.
func (w *wis) freshViews(o wisOpts, like []*xdsClient) (map[string]map[string]map[string][]byte, bool) {
	if w.sched != nil {
		w.sched.SetPassthrough(true)
	}
	inst := newWisInstance(w.t, "fresh", o)
	defer func() {
		inst.Close()
		synctest.Wait()
	}()
	fw := newWis(w.t, w.r, inst)
	defer fw.cancel()
	var cs []*xdsClient
	for _, c := range like {
		fc := newXdsClient(c.name, cloneNode(c.node), c.delta, c.roots)
		cs = append(cs, fc)
		fw.addClient(fc)
		fw.connect(fc, inst, false)
	}
	ok := fw.quiesce(inst, cs)
	out := map[string]map[string]map[string][]byte{}
	for _, c := range cs {
		out[c.name] = c.heldView()
	}
	fw.cancel()
	synctest.Wait()
	return out, ok
}

// explainContent renders the first differing lines of two serialized resources of a type.
func explainContent(typeURL string, got, want []byte) (string, string) {
	mk := func(b []byte) []string {
		var m proto.Message
		switch shortType(typeURL) {
		case "Cluster":
			m = &clusterv3.Cluster{}
		case "ClusterLoadAssignment":
			m = &endpointv3.ClusterLoadAssignment{}
		case "Listener":
			m = &listenerv3.Listener{}
		case "RouteConfiguration":
			m = &routev3.RouteConfiguration{}
		case "TypedExtensionConfig":
			m = &core.TypedExtensionConfig{}
		default:
			return []string{fmt.Sprintf("<%d bytes>", len(b))}
		}
		if err := proto.Unmarshal(b, m); err != nil {
			return []string{"<unmarshal error>"}
		}
		return strings.Split(prototext.MarshalOptions{Multiline: true, Indent: " "}.Format(m), "\n")
	}
	g, w := mk(got), mk(want)
	// normalise prototext's random double spaces
	for i := range g {
		g[i] = strings.ReplaceAll(g[i], ":  ", ": ")
	}
	for i := range w {
		w[i] = strings.ReplaceAll(w[i], ":  ", ": ")
	}
	i := 0
	for i < len(g) && i < len(w) && g[i] == w[i] {
		i++
	}
	from := i - 6
	if from < 0 {
		from = 0
	}
	var b strings.Builder
	fmt.Fprintf(&b, "first difference at line %d (client has %d lines, fresh %d)\n", i, len(g), len(w))
	for j := from; j < i; j++ {
		fmt.Fprintf(&b, "   %s\n", g[j])
	}
	for j := i; j < i+10 && j < len(g); j++ {
		fmt.Fprintf(&b, " - client: %s\n", g[j])
	}
	for j := i; j < i+10 && j < len(w); j++ {
		fmt.Fprintf(&b, " + fresh : %s\n", w[j])
	}
	field := ""
	for _, l := range [][]string{g, w} {
		if i < len(l) && field == "" {
			f := strings.TrimSpace(l[i])
			if k := strings.IndexAny(f, ": {"); k > 0 {
				f = f[:k]
			}
			if f != "}" {
				field = f
			}
		}
	}
	return b.String(), field
}
