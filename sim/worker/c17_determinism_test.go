package worker

import (
	"fmt"
	"strings"
	"testing"
	"testing/synctest"

	"istio.io/istio/pilot/pkg/model"
	"istio.io/istio/pkg/config"
	"verif/sim/engine"
)

// C17: replica-divergence simulation (DESIGN 4.11). The same object set is given to several
// control-plane instances in independently permuted insertion orders; identical clients connect to
// each; every resource of every type, and the order of resources in each response, must be
// byte-identical. A forced regeneration inside one instance must reproduce its own output.

func init() { register("c17", "C17", runC17) }

// orderedView is per type the ordered list of (name, bytes) of the last full response.
func orderedView(c *xdsClient) map[string][]string {
	out := map[string][]string{}
	for t, s := range c.sub {
		if !s.wildcard {
			continue // order of partial EDS/RDS responses depends on subscription history; compared by name below
		}
		for _, n := range s.order {
			out[t] = append(out[t], n)
		}
	}
	return out
}

func runC17(t *testing.T, r *engine.Run) {
	tp := r.T
	bubbleInit()
	db := debounceCfg{after: 10_000_000, max: 50_000_000}
	// 1. draw an object set (creation-time ties and several owners of one host are frequent by construction)
	wd := newWorld(tp, nil)
	n := 3 + tp.Choose(12, "nobjects")
	for i := 0; i < n; i++ {
		wd.next(tp) // only the bookkeeping: objects are inserted below
	}
	var objs []config.Config
	for i, k := range wd.existingKeys() {
		o := wd.exists[k]
		// the resource version is part of the object (the API server assigns it; the in-memory store would
		// otherwise stamp its own clock reading, which some generated resources embed)
		o.ResourceVersion = fmt.Sprint(1000 + i)
		objs = append(objs, o)
	}
	if len(objs) == 0 {
		return
	}
	specs := pickClients(tp, 2, false)
	tp.Note(fmt.Sprint(wd.existingKeys(), clientNames(specs)))
	for _, o := range objs {
		tp.Note(compactSpec(o.Spec))
	}
	r.Logf("objects=%v clients=%v", wd.existingKeys(), clientNames(specs))
	for _, o := range objs {
		r.Logf("  %s ctime=+%ds %s", cfgKey(o), int(o.CreationTimestamp.Sub(wlT0).Seconds()), compactSpec(o.Spec))
	}

	type replica struct {
		views   map[string]map[string]map[string][]byte
		ordered map[string]map[string][]string
	}
	build := func(name string, perm []config.Config, regen bool) (*replica, bool) {
		inst := newWisInstance(t, name, wisOpts{debounceAfter: db.after, debounceMax: db.max, configs: perm})
		defer func() {
			inst.Close()
			synctest.Wait()
		}()
		w := newWis(t, r, inst)
		defer w.cancel()
		for _, c := range specs {
			fc := newXdsClient(c.name, cloneNode(c.node), c.delta, c.roots)
			w.addClient(fc)
			w.connect(fc, inst, false)
		}
		if !w.quiesce(inst, w.clients) {
			return nil, false
		}
		rep := &replica{views: map[string]map[string]map[string][]byte{}, ordered: map[string]map[string][]string{}}
		snap := func() {
			for _, c := range w.clients {
				rep.views[c.name] = c.heldView()
				rep.ordered[c.name] = orderedView(c)
			}
		}
		snap()
		if regen {
			// forced regenerations inside one instance: each samples Go's per-range map order anew
			for k := 0; k < 3; k++ {
				before := rep
				inst.fds.Discovery.ConfigUpdate(&model.PushRequest{Forced: true, Reason: model.NewReasonStats(model.DebugTrigger)})
				synctest.Wait()
				if !w.quiesce(inst, w.clients) {
					return nil, false
				}
				rep = &replica{views: map[string]map[string]map[string][]byte{}, ordered: map[string]map[string][]string{}}
				snap()
				r.Probe("regenerations")
				if msg := compareReplicas(before.views, before.ordered, rep.views, rep.ordered); msg != "" {
					r.Fail("c17.regeneration_differs", firstWord(msg), "forced regeneration #%d inside one instance changed the output: %s", k+1, msg)
					return rep, true
				}
			}
		}
		for _, c := range w.clients {
			w.cut(c)
		}
		return rep, true
	}
	permute := func(label string) []config.Config {
		p := append([]config.Config(nil), objs...)
		for i := len(p) - 1; i > 0; i-- {
			j := tp.Choose(i+1, label)
			p[i], p[j] = p[j], p[i]
		}
		for i := range p {
			p[i] = p[i].DeepCopy()
			tp.Note(cfgKey(p[i]))
		}
		return p
	}
	a, ok := build("replica-a", permute("permA"), true)
	if !ok {
		r.Inconclusive = "replica a did not quiesce"
		return
	}
	if r.Failed() {
		return
	}
	nrep := 1 + tp.Choose(2, "nreplicas")
	for i := 0; i < nrep && !r.Failed(); i++ {
		b, ok := build(fmt.Sprintf("replica-%c", 'b'+i), permute("permB"), false)
		if !ok {
			r.Inconclusive = "replica did not quiesce"
			return
		}
		r.Probe("replica_pairs")
		r.NonTriv = true
		if msg := compareReplicas(a.views, a.ordered, b.views, b.ordered); msg != "" {
			r.Fail("c17.replicas_differ", firstWord(msg), "two instances given the same objects (permuted insertion order) disagree: %s", msg)
		}
	}
	r.Steps = n
	d := ""
	for _, c := range specs {
		d += digestView(a.views[c.name])
	}
	r.Digest = d
}

func firstWord(s string) string {
	if i := strings.IndexAny(s, " ["); i > 0 {
		return s[:i]
	}
	return s
}

func compareReplicas(av map[string]map[string]map[string][]byte, ao map[string]map[string][]string,
	bv map[string]map[string]map[string][]byte, bo map[string]map[string][]string,
) string {
	for _, cname := range sortedKeys(av) {
		if d := diffViews(av[cname], bv[cname]); len(d) > 0 {
			return fmt.Sprintf("%s[%s]:%s client %s:%s", d[0].typ, d[0].name, d[0].kind, cname, fmtDiffs(d))
		}
		for _, t := range sortedKeys(ao[cname]) {
			x, y := ao[cname][t], bo[cname][t]
			if strings.Join(x, ",") != strings.Join(y, ",") {
				return fmt.Sprintf("%s:order client %s: resource order differs: %v vs %v", shortType(t), cname, x, y)
			}
		}
	}
	return ""
}

func sortedKeys[V any](m map[string]V) []string {
	out := make([]string, 0, len(m))
	for k := range m {
		out = append(out, k)
	}
	// insertion sort keeps this dependency-free
	for i := 1; i < len(out); i++ {
		for j := i; j > 0 && out[j] < out[j-1]; j-- {
			out[j], out[j-1] = out[j-1], out[j]
		}
	}
	return out
}
