package worker

import (
	"fmt"
	"sort"
	"strings"
	"testing"
	"testing/synctest"

	discovery "github.com/envoyproxy/go-control-plane/envoy/service/discovery/v3"
	"google.golang.org/genproto/googleapis/rpc/status"
	"google.golang.org/protobuf/proto"

	"istio.io/istio/pilot/pkg/model"
	"istio.io/istio/pilot/pkg/xds"
	v3 "istio.io/istio/pilot/pkg/xds/v3"
	"verif/sim/engine"
)

// C04: closed loop between the real per-connection goroutines and (i) a conformant client model with an
// independent obligation model, (ii) an arbitrary request generator (crash clause) - DESIGN 4.4.

func init() {
	register("c04", "C04", runC04)
	register("c04x", "C04", runC04x)
}

func findConn(inst *wisInstance, c *xdsClient) *xds.Connection {
	for _, con := range inst.fds.Discovery.AllClients() {
		if p := con.Proxy(); p != nil && p.XdsNode != nil && p.XdsNode.Id == c.node.Id {
			return con
		}
	}
	return nil
}

// serverRecord returns the server's record of the client's subscription for a type.
func serverRecord(inst *wisInstance, c *xdsClient, t string) (names []string, exists bool) {
	con := findConn(inst, c)
	if con == nil {
		return nil, false
	}
	wr := con.Proxy().GetWatchedResource(t)
	if wr == nil {
		return nil, false
	}
	for n := range wr.ResourceNames {
		names = append(names, n)
	}
	sort.Strings(names)
	return names, true
}

// checkRecord: after any exchange with a conformant client whose last message was processed and was not a
// rejection, the server's record of the subscription equals what the client last asked for.
func (w *wis) checkRecord(c *xdsClient, where string) {
	for _, t := range []string{v3.EndpointType, v3.RouteType, v3.ExtensionConfigurationType} {
		s := c.sub[t]
		if s == nil || !s.requested || s.rejected {
			continue
		}
		want := sortedNames(s.names)
		got, exists := serverRecord(c.inst, c, t)
		if len(want) == 0 {
			// "not interested": either no record or an empty one
			if exists && len(got) > 0 {
				w.r.Fail("c04.record_mismatch", shortType(t), "%s: client %s asked for no %s resources, server records %v", where, c.name, shortType(t), got)
			}
			continue
		}
		if strings.Join(got, ",") != strings.Join(want, ",") {
			w.r.Fail("c04.record_mismatch", shortType(t), "%s: client %s last asked for %s %v, server records %v (exists=%v)", where, c.name, shortType(t), want, got, exists)
		}
	}
}

func runC04(t *testing.T, r *engine.Run) {
	tp := r.T
	bubbleInit()
	db := debounceCfg{after: 10_000_000, max: 50_000_000}
	inst := newWisInstance(t, "main", wisOpts{debounceAfter: db.after, debounceMax: db.max})
	defer func() {
		inst.Close()
		synctest.Wait()
	}()
	w := newWis(t, r, inst)
	defer w.cancel()
	delta := tp.Bool(1, 2, "delta")
	c := clientMenu[tp.Choose(len(clientMenu), "client")].build(delta)
	w.addClient(c)
	w.connect(c, inst, false)
	if !w.quiesce(inst, w.clients) {
		r.Inconclusive = "no initial quiescence"
		return
	}
	// WasmPlugin: listeners then refer to extension configurations by config discovery (ECDS, a by-name type)
	wd := newWorld(tp, []string{"ServiceEntry", "DestinationRule", "VirtualService", "Sidecar", "PeerAuthentication", "WasmPlugin"})
	wd.collide = 0
	r.Logf("client=%s delta=%v", c.name, delta)

	// ---- phase A: server pushes (from concurrent mutations) interleaved in every order with the client's
	// requests, NACKs and subscription changes
	stepsA := 5 + tp.Choose(40, "stepsA")
	nmut := 0
	for i := 0; i < stepsA && !r.Failed() && !tp.Exhausted(); i++ {
		r.Steps++
		var acts []string
		if nmut < 12 {
			acts = append(acts, "mutate", "mutate")
		}
		acts = append(acts, "gap")
		if w.hasParkedSend(c) {
			acts = append(acts, "resp", "resp", "resp", "nack")
		}
		if w.canDeliverReq(c) {
			acts = append(acts, "req", "req", "req")
		}
		if len(c.state(v3.EndpointType).names) > 1 {
			acts = append(acts, "resub")
		}
		if len(c.sentLog) > 0 && c.connected {
			acts = append(acts, "dup")
		}
		a := acts[tp.Choose(len(acts), "act")]
		tp.Note(a)
		switch a {
		case "mutate":
			m := wd.next(tp)
			if err := m.apply(inst); err == nil {
				nmut++
				synctest.Wait()
				r.Logf("t=%v %s", w.now(), m.desc)
			}
		case "gap":
			w.gap(tp, db)
		case "resp":
			w.deliverResp(c)
		case "nack":
			var typ string
			if c.delta {
				typ = c.dstr.ParkedSend().TypeUrl
			} else {
				typ = c.sotw.ParkedSend().TypeUrl
			}
			c.nackNext[typ] = true
			r.Fault("nack")
			r.Logf("client rejects the parked %s response", shortType(typ))
			w.deliverResp(c)
		case "req":
			w.deliverReq(c)
		case "resub":
			names := sortedNames(c.state(v3.EndpointType).names)
			victim := names[tp.Choose(len(names), "victim")]
			full, cur := map[string]struct{}{}, map[string]struct{}{}
			for _, n := range names {
				full[n] = struct{}{}
				if n != victim {
					cur[n] = struct{}{}
				}
			}
			c.resubscribe(v3.EndpointType, cur)
			c.resubscribe(v3.EndpointType, full)
			r.Probe("resubscribe")
			r.Logf("client unsubscribes and re-subscribes EDS %s", victim)
		case "dup":
			// re-send of the last request of some type (Envoy does this when it detects a new resource)
			if s := c.sub[v3.EndpointType]; s != nil && s.requested && !c.delta && !s.rejected {
				c.enqueue(c.sotwRequest(v3.EndpointType))
				r.Fault("dup_request")
			}
		}
		if w.hasParkedSend(c) && len(c.outq) > 0 {
			r.Probe("request_races_push")
			r.NonTriv = true
		}
	}
	if r.Failed() {
		return
	}
	if !w.quiesce(inst, w.clients) {
		r.Fail("c04.no_quiescence", "", "exchange between server and an ACKing client did not quiesce (push loop?)")
		return
	}
	w.checkRecord(c, "after phase A")
	if u := c.unanswered(); len(u) > 0 {
		for _, l := range c.sentLog[max(0, len(c.sentLog)-14):] {
			r.Logf("  sent: %s", l)
		}
		for _, e := range c.recvLog[max(0, len(c.recvLog)-14):] {
			r.Logf("  recv: step=%d %s nonce=%.8s names=%v removed=%v accepted=%v", e.step, shortType(e.typeURL), e.nonce, e.names, e.removed, e.accepted)
		}
		r.Fail("c04.added_names_unanswered", shortTypeOf(u[0]), "client %s (delta=%v): names added to a subscription were never answered: %v", c.name, c.delta, u)
	}
	if r.Failed() {
		return
	}

	// ---- phase B: quiet system, one protocol event at a time from a quiescent state; each is exactly attributable
	eventsB := 3 + tp.Choose(10, "eventsB")
	dropped := map[string][]string{} // names the client unsubscribed from in this phase, per type
	for i := 0; i < eventsB && !r.Failed() && !tp.Exhausted(); i++ {
		r.Steps++
		typs := []string{}
		for _, t := range []string{v3.ClusterType, v3.EndpointType, v3.ListenerType, v3.RouteType, v3.ExtensionConfigurationType} {
			if s := c.sub[t]; s != nil && s.requested && s.nonce != "" && (s.wildcard || len(s.names) > 0) {
				typs = append(typs, t)
			}
		}
		if len(typs) == 0 {
			break
		}
		typ := typs[tp.Choose(len(typs), "typ")]
		s := c.sub[typ]
		kinds := []string{"ack_again", "nack", "stale_nonce"}
		if !s.wildcard {
			if typ != v3.ExtensionConfigurationType { // istio does not answer for extension configurations that do not exist
				kinds = append(kinds, "add_name", "add_name")
			}
			if len(s.names) > 1 {
				kinds = append(kinds, "drop_name")
			}
			if len(dropped[typ]) > 0 {
				kinds = append(kinds, "readd_name")
			}
		}
		kind := kinds[tp.Choose(len(kinds), "evkind")]
		tp.Note(kind + ":" + shortType(typ))
		mustAnswer, mustSilent := false, false
		var added []string
		var req proto.Message
		names := sortedNames(s.names)
		mkSotw := func(nonce string, names []string, nack bool) proto.Message {
			q := &discovery.DiscoveryRequest{TypeUrl: typ, VersionInfo: s.version, ResponseNonce: nonce}
			if !s.wildcard {
				q.ResourceNames = names
			}
			if nack {
				q.ErrorDetail = &status.Status{Code: 3, Message: "simulated rejection"}
			}
			return q
		}
		switch kind {
		case "ack_again":
			// Not after a rejection: istio ignores the resource names carried by a NACK, so if the subscription
			// changed in a request that crossed the rejected response (stale nonce, ignored) the server's record
			// lags until the next ACK, which it then answers with the names it had missed (seed 1 run 9579 of the
			// quick tier: RDS [80] -> [80 81] crossing a rejected response). The statement exempts rejections.
			mustSilent = !s.rejected
			if c.delta {
				req = &discovery.DeltaDiscoveryRequest{TypeUrl: typ, ResponseNonce: s.nonce}
			} else {
				req = mkSotw(s.nonce, names, false)
			}
		case "nack":
			mustSilent = true
			if c.delta {
				req = &discovery.DeltaDiscoveryRequest{TypeUrl: typ, ResponseNonce: s.nonce, ErrorDetail: &status.Status{Code: 3, Message: "simulated rejection"}}
			} else {
				req = mkSotw(s.nonce, names, true)
			}
		case "stale_nonce":
			mustSilent = true
			if c.delta {
				req = &discovery.DeltaDiscoveryRequest{TypeUrl: typ, ResponseNonce: "stale-" + s.nonce}
			} else {
				extra := names
				if !s.wildcard && tp.Bool(1, 2, "staleAdds") {
					extra = append(append([]string(nil), names...), "outbound|80||stale.example.com")
				}
				req = mkSotw("stale-"+s.nonce, extra, false)
			}
		case "drop_name":
			// a request that only removes a name is a changed resource set: the server may answer or not
			// (istio answers delta ECDS unsubscriptions with an empty response); the record must follow (checked below)
			n := names[tp.Choose(len(names), "dropname")]
			delete(s.names, n)
			delete(s.held, n)
			dropped[typ] = append(dropped[typ], n)
			if c.delta {
				req = &discovery.DeltaDiscoveryRequest{TypeUrl: typ, ResourceNamesUnsubscribe: []string{n}}
			} else {
				req = mkSotw(s.nonce, sortedNames(s.names), false)
			}
			s.lastReq = sortedNames(s.names)
		case "add_name", "readd_name":
			// extension configurations: the name may belong to a plugin that no longer exists (a rejected listener
			// still refers to it); istio sends nothing for such a name, so only the record is checked
			mustAnswer = typ != v3.ExtensionConfigurationType
			n := fmt.Sprintf("outbound|80||added%d.example.com", i)
			if typ == v3.RouteType {
				n = fmt.Sprintf("90%d", i)
			}
			if typ == v3.ExtensionConfigurationType {
				n = fmt.Sprintf("added%d.example.com", i)
			}
			if kind == "readd_name" { // subscribe again to a name dropped earlier: answered like any added name
				d := dropped[typ]
				k := tp.Choose(len(d), "readd")
				n = d[k]
				dropped[typ] = append(d[:k:k], d[k+1:]...)
				if c.answered[typ] != nil {
					delete(c.answered[typ], n)
				}
			}
			added = []string{n}
			s.names[n] = struct{}{}
			if c.delta {
				req = &discovery.DeltaDiscoveryRequest{TypeUrl: typ, ResourceNamesSubscribe: added}
			} else {
				req = mkSotw(s.nonce, sortedNames(s.names), false)
			}
			s.lastReq = sortedNames(s.names)
		}
		before := s.responses
		c.enqueue(req)
		w.deliverReq(c)
		answered := w.hasParkedSend(c)
		r.Logf("event %s on %s -> response parked: %v", kind, shortType(typ), answered)
		r.Probe("event_" + kind)
		if mustSilent && answered {
			r.Fail("c04.answered_when_silence_required", kind+":"+shortType(typ), "%s on %s (delta=%v) was answered although the protocol requires silence; request names=%v (last request %v), response: %s", kind, shortType(typ), c.delta, names, s.lastReq, w.parkedDesc(c))
			return
		}
		if mustAnswer && !answered {
			r.Fail("c04.silent_when_answer_required", kind+":"+shortType(typ), "request adding %v to the %s subscription (delta=%v) was not answered", added, shortType(typ), c.delta)
			return
		}
		// no loop: with no external stimulus and an ACKing client the system quiesces within a few exchanges
		exchanges := 0
		for w.hasParkedSend(c) || w.canDeliverReq(c) {
			if w.hasParkedSend(c) {
				w.deliverResp(c)
			} else {
				w.deliverReq(c)
			}
			exchanges++
			if exchanges > 4*8 {
				r.Fail("c04.push_loop", kind+":"+shortType(typ), "after %s on %s the server and an ACKing client exchanged more than %d messages with no external stimulus", kind, shortType(typ), exchanges)
				return
			}
		}
		if mustAnswer {
			for _, n := range added {
				if _, ok := c.answered[typ][n]; !ok {
					r.Fail("c04.added_names_unanswered", shortType(typ), "response to the request adding %v did not contain it (responses %d -> %d)", added, before, s.responses)
					return
				}
			}
		}
		if kind != "nack" {
			w.checkRecord(c, "after "+kind)
		}
	}
	w.cut(c)
}

// ---- stratum (ii): arbitrary, non-conformant request sequences: the only oracle is "no crash, no deadlock,
// the stream continues or ends with an error".
func runC04x(t *testing.T, r *engine.Run) {
	tp := r.T
	bubbleInit()
	inst := newWisInstance(t, "main", wisOpts{debounceAfter: 10_000_000, debounceMax: 50_000_000})
	defer func() {
		inst.Close()
		synctest.Wait()
	}()
	w := newWis(t, r, inst)
	defer w.cancel()
	delta := tp.Bool(1, 2, "delta")
	c := clientMenu[tp.Choose(len(clientMenu), "client")].build(delta)
	c.deriveDeps = false
	w.addClient(c)
	// open the stream without the conformant initial requests
	w.connect(c, inst, false)
	c.outq = nil
	types := []string{v3.ClusterType, v3.EndpointType, v3.ListenerType, v3.RouteType, v3.SecretType, v3.NameTableType,
		v3.ExtensionConfigurationType, "type.googleapis.com/unknown.Type", v3.AddressType}
	universe := []string{"outbound|80||a.example.com", "outbound|80||b.example.com", "80", "default", "*"}
	n := 3 + tp.Choose(25, "nreq")
	seenNonce := map[string][]string{}
	r.Logf("client=%s delta=%v", c.name, delta)
	wd := newWorld(tp, []string{"ServiceEntry"})
	for i := 0; i < n && !tp.Exhausted(); i++ {
		r.Steps++
		if !c.connected {
			w.connect(c, inst, false)
			c.outq = nil
			r.Probe("reconnect_after_error")
		}
		typ := types[tp.Choose(len(types), "typ")]
		var nonce string
		switch tp.Choose(4, "nonce") {
		case 1:
			if l := seenNonce[typ]; len(l) > 0 {
				nonce = l[len(l)-1]
			}
		case 2:
			if l := seenNonce[typ]; len(l) > 1 {
				nonce = l[tp.Choose(len(l)-1, "stale")]
			} else {
				nonce = "never-sent"
			}
		case 3:
			nonce = "garbage\x00\xff"
		}
		var names []string
		k := tp.Choose(4, "nnames")
		for j := 0; j < k; j++ {
			names = append(names, universe[tp.Choose(len(universe), "name")])
		}
		var errd *status.Status
		if tp.Bool(1, 3, "err") {
			errd = &status.Status{Code: 3, Message: "rejected"}
		}
		var req proto.Message
		if delta {
			q := &discovery.DeltaDiscoveryRequest{TypeUrl: typ, ResponseNonce: nonce, ErrorDetail: errd}
			switch tp.Choose(3, "shape") {
			case 0:
				q.ResourceNamesSubscribe = names
			case 1:
				q.ResourceNamesUnsubscribe = names
			default:
				q.ResourceNamesSubscribe = names
				q.InitialResourceVersions = map[string]string{}
				for _, nm := range names {
					q.InitialResourceVersions[nm] = "v"
				}
			}
			req = q
		} else {
			req = &discovery.DiscoveryRequest{TypeUrl: typ, ResponseNonce: nonce, ResourceNames: names, ErrorDetail: errd, VersionInfo: []string{"", "v1"}[tp.Choose(2, "ver")]}
		}
		tp.Note(fmt.Sprintf("%s/%d/%v", shortType(typ), len(names), errd != nil))
		r.Logf("send %s nonce=%q names=%v err=%v", shortType(typ), nonce, names, errd != nil)
		if errd != nil && nonce == "" {
			r.NonTriv = true
			r.Probe("nack_without_prior_response")
		}
		if !w.canDeliverReqRaw(c) {
			// receive side not ready (initialisation / rate limit): give it time
			w.advance(41_000_000)
		}
		if !w.canDeliverReqRaw(c) {
			w.reapStream(c)
			continue
		}
		c.enqueue(req)
		w.deliverReq(c)
		// occasionally a server push races
		if tp.Bool(1, 5, "mutate") {
			if m := wd.next(tp); m.apply(inst) == nil {
				synctest.Wait()
			}
			w.advance(61_000_000)
		}
		// accept (ACK-less) whatever the server sends, remembering nonces
		for k := 0; k < 6 && w.hasParkedSend(c); k++ {
			if delta {
				resp := c.dstr.ParkedSend()
				seenNonce[resp.TypeUrl] = append(seenNonce[resp.TypeUrl], resp.Nonce)
				c.dstr.CompleteSend(nil)
			} else {
				resp := c.sotw.ParkedSend()
				seenNonce[resp.TypeUrl] = append(seenNonce[resp.TypeUrl], resp.Nonce)
				c.sotw.CompleteSend(nil)
			}
			synctest.Wait()
			r.Probe("responses")
		}
		w.reapStream(c)
	}
	w.cut(c)
	_ = model.Healthy
}

// canDeliverReqRaw: the server's receive goroutine is parked in Recv (regardless of the client's queue).
func (w *wis) canDeliverReqRaw(c *xdsClient) bool {
	if !c.connected {
		return false
	}
	if c.delta {
		return c.dstr.InRecv()
	}
	return c.sotw.InRecv()
}
