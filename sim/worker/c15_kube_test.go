package worker

import (
	"context"
	"fmt"
	"sort"
	"strings"
	"testing"
	"testing/synctest"
	"time"

	endpointv3 "github.com/envoyproxy/go-control-plane/envoy/config/endpoint/v3"
	"google.golang.org/protobuf/proto"
	corev1 "k8s.io/api/core/v1"
	discoveryv1 "k8s.io/api/discovery/v1"
	metav1 "k8s.io/apimachinery/pkg/apis/meta/v1"
	"k8s.io/apimachinery/pkg/runtime"
	"k8s.io/apimachinery/pkg/util/intstr"

	"istio.io/istio/pilot/pkg/model"
	"verif/sim/engine"
)

// C15: the Kubernetes registry must converge regardless of event arrival order (DESIGN 4.9). A causally valid
// cluster history is generated first; the simulator then applies it to the fake API server in an arbitrary
// interleaving of the per-type streams (each type's own order preserved, which is what informers guarantee).
// Oracle: endpoint index, and what a fixed proxy holds, equal a COLD-STARTED control plane on the final objects.

func init() { register("c15", "C15", runC15) }

type kEvent struct {
	typ  string // svc | pod | slice | node
	verb string // create | update | delete
	obj  runtime.Object
	desc string
}

type kPod struct {
	name, app, ip, sa, node string
	running, ready          bool
	terminating             bool
}

type kSvc struct {
	name     string
	headless bool
	ports    []int32
	exists   bool
	hidden   bool // annotated networking.istio.io/exportTo: "~" (exported to no namespace)
}

// kCluster builds the causal history.
type kCluster struct {
	dupEmitted int // slice events that put one address into two slices of a service
	tp         *engine.Tape
	ns         string
	pods       map[string]*kPod
	svcs       map[string]*kSvc
	slices     map[string]*discoveryv1.EndpointSlice // by name, as last emitted
	rule       map[string]int                        // address -> slices holding it: 0 = slice a, 1 = slice b, 2 = both (transient duplicate while the EndpointSlice controller moves it)
	q          map[string][]kEvent
	ctime      metav1.Time
}

func (k *kCluster) emit(typ, verb string, obj runtime.Object, desc string) {
	k.q[typ] = append(k.q[typ], kEvent{typ, verb, obj, desc})
}

func (k *kCluster) podObj(p *kPod) *corev1.Pod {
	o := &corev1.Pod{
		ObjectMeta: metav1.ObjectMeta{Name: p.name, Namespace: k.ns, Labels: map[string]string{"app": p.app}, CreationTimestamp: k.ctime},
		Spec:       corev1.PodSpec{ServiceAccountName: p.sa, NodeName: p.node},
		Status:     corev1.PodStatus{Phase: corev1.PodPending},
	}
	if p.running {
		o.Status.Phase = corev1.PodRunning
		o.Status.PodIP = p.ip
		o.Status.PodIPs = []corev1.PodIP{{IP: p.ip}}
		st := corev1.ConditionFalse
		if p.ready {
			st = corev1.ConditionTrue
		}
		o.Status.Conditions = []corev1.PodCondition{{Type: corev1.PodReady, Status: st}}
	}
	if p.terminating {
		t := metav1.NewTime(k.ctime.Add(time.Hour))
		o.DeletionTimestamp = &t
	}
	return o
}

func (k *kCluster) svcObj(s *kSvc) *corev1.Service {
	o := &corev1.Service{
		ObjectMeta: metav1.ObjectMeta{Name: s.name, Namespace: k.ns, CreationTimestamp: k.ctime},
		Spec:       corev1.ServiceSpec{Selector: map[string]string{"app": s.name}, ClusterIP: "10.96.0." + s.name[len(s.name)-1:]},
	}
	if s.headless {
		o.Spec.ClusterIP = corev1.ClusterIPNone
	}
	if s.hidden {
		o.Annotations = map[string]string{"networking.istio.io/exportTo": "~"}
	}
	for _, p := range s.ports {
		o.Spec.Ports = append(o.Spec.Ports, corev1.ServicePort{Name: fmt.Sprintf("http-%d", p), Port: p, TargetPort: intstr.FromInt32(8000 + p), Protocol: corev1.ProtocolTCP})
	}
	return o
}

// syncSlices emits the EndpointSlice changes the EndpointSlice controller would make for the current pods/services.
func (k *kCluster) syncSlices() {
	desired := map[string]*discoveryv1.EndpointSlice{}
	for _, sn := range sortedKeys(k.svcs) {
		s := k.svcs[sn]
		if !s.exists {
			continue
		}
		for idx := 0; idx < 2; idx++ {
			name := fmt.Sprintf("%s-%c", s.name, 'a'+idx)
			es := &discoveryv1.EndpointSlice{
				ObjectMeta:  metav1.ObjectMeta{Name: name, Namespace: k.ns, Labels: map[string]string{discoveryv1.LabelServiceName: s.name}, CreationTimestamp: k.ctime},
				AddressType: discoveryv1.AddressTypeIPv4,
			}
			for _, p := range s.ports {
				pn, pp, proto := fmt.Sprintf("http-%d", p), 8000+p, corev1.ProtocolTCP
				es.Ports = append(es.Ports, discoveryv1.EndpointPort{Name: &pn, Port: &pp, Protocol: &proto})
			}
			for _, pname := range sortedKeys(k.pods) {
				p := k.pods[pname]
				if p.app != s.name || !p.running || (k.rule[p.ip] != 2 && k.rule[p.ip] != idx) {
					continue
				}
				ready, term := p.ready && !p.terminating, p.terminating
				node := p.node
				es.Endpoints = append(es.Endpoints, discoveryv1.Endpoint{
					Addresses:  []string{p.ip},
					Conditions: discoveryv1.EndpointConditions{Ready: &ready, Terminating: &term},
					TargetRef:  &corev1.ObjectReference{Kind: "Pod", Name: p.name, Namespace: k.ns},
					NodeName:   &node,
				})
			}
			if len(es.Endpoints) > 0 || idx == 0 {
				desired[name] = es
			}
		}
	}
	for _, name := range sortedKeys(k.slices) {
		if _, ok := desired[name]; !ok {
			k.emit("slice", "delete", k.slices[name], "delete slice "+name)
			delete(k.slices, name)
		}
	}
	for _, name := range sortedKeys(desired) {
		d := desired[name]
		old, ok := k.slices[name]
		if !ok {
			k.emit("slice", "create", d, fmt.Sprintf("create slice %s %s", name, sliceAddrs(d)))
		} else if sliceAddrs(old) != sliceAddrs(d) || len(old.Ports) != len(d.Ports) {
			k.emit("slice", "update", d, fmt.Sprintf("update slice %s %s", name, sliceAddrs(d)))
			for _, other := range sortedKeys(desired) {
				if other != name && desired[other].Labels[discoveryv1.LabelServiceName] == d.Labels[discoveryv1.LabelServiceName] {
					for _, e := range d.Endpoints {
						if strings.Contains(sliceAddrs(desired[other]), e.Addresses[0]+"/") {
							k.dupEmitted++
						}
					}
				}
			}
		} else {
			continue
		}
		k.slices[name] = d
	}
}

func sliceAddrs(es *discoveryv1.EndpointSlice) string {
	var s []string
	for _, e := range es.Endpoints {
		r := "r"
		if e.Conditions.Ready != nil && !*e.Conditions.Ready {
			r = "nr"
		}
		if e.Conditions.Terminating != nil && *e.Conditions.Terminating {
			r += "T"
		}
		s = append(s, e.Addresses[0]+"/"+e.TargetRef.Name+"/"+r)
	}
	return "[" + strings.Join(s, " ") + "]"
}

func (k *kCluster) step() {
	tp := k.tp
	ips := []string{"10.4.0.1", "10.4.0.2", "10.4.0.3"}
	freeIP := func() string {
		used := map[string]bool{}
		for _, p := range k.pods {
			if p.running {
				used[p.ip] = true
			}
		}
		for off := 0; off < len(ips); off++ {
			ip := ips[(tp.Choose(len(ips), "ip")+off)%len(ips)]
			if !used[ip] {
				return ip
			}
		}
		return ""
	}
	switch op := tp.Choose(14, "kop"); {
	case op < 2: // service create / delete / update
		name := []string{"svc1", "svc2"}[tp.Choose(2, "svc")]
		s := k.svcs[name]
		if s == nil {
			s = &kSvc{name: name}
			k.svcs[name] = s
		}
		if !s.exists {
			s.exists, s.headless, s.ports = true, tp.Bool(1, 4, "headless"), [][]int32{{80}, {80, 81}}[tp.Choose(2, "ports")]
			s.hidden = tp.Bool(1, 6, "svchidden")
			k.emit("svc", "create", k.svcObj(s), fmt.Sprintf("create service %s headless=%v ports=%v exported to nobody=%v", name, s.headless, s.ports, s.hidden))
		} else if s.hidden && tp.Bool(1, 2, "svcunhide") {
			s.hidden = false
			k.emit("svc", "update", k.svcObj(s), fmt.Sprintf("update service %s exported to nobody=%v", name, s.hidden))
		} else if tp.Bool(1, 2, "svcdel") {
			s.exists = false
			k.emit("svc", "delete", k.svcObj(s), "delete service "+name)
		} else if tp.Bool(1, 3, "svchide") {
			s.hidden = !s.hidden
			k.emit("svc", "update", k.svcObj(s), fmt.Sprintf("update service %s exported to nobody=%v", name, s.hidden))
		} else {
			s.ports = [][]int32{{80}, {80, 81}}[tp.Choose(2, "ports")]
			k.emit("svc", "update", k.svcObj(s), fmt.Sprintf("update service %s ports=%v", name, s.ports))
		}
	case op < 5: // new pod
		name := fmt.Sprintf("p%d", 1+tp.Choose(4, "pod"))
		if k.pods[name] != nil {
			return
		}
		p := &kPod{name: name, app: []string{"svc1", "svc2"}[tp.Choose(2, "app")], sa: []string{"sa1", "sa2"}[tp.Choose(2, "sa")], node: []string{"n1", "n2"}[tp.Choose(2, "node")]}
		k.pods[name] = p
		k.emit("pod", "create", k.podObj(p), fmt.Sprintf("create pod %s app=%s (pending)", name, p.app))
	case op < 8: // progress a pod: pending -> running -> ready <-> not ready
		names := sortedKeys(k.pods)
		if len(names) == 0 {
			return
		}
		p := k.pods[names[tp.Choose(len(names), "which")]]
		if !p.running {
			ip := freeIP()
			if ip == "" {
				return
			}
			p.running, p.ip = true, ip
			k.emit("pod", "update", k.podObj(p), fmt.Sprintf("pod %s running ip=%s", p.name, ip))
		} else {
			p.ready = !p.ready
			k.emit("pod", "update", k.podObj(p), fmt.Sprintf("pod %s ready=%v", p.name, p.ready))
		}
	case op < 9: // label edit: the pod moves to the other service
		names := sortedKeys(k.pods)
		if len(names) == 0 {
			return
		}
		p := k.pods[names[tp.Choose(len(names), "which")]]
		p.app = map[string]string{"svc1": "svc2", "svc2": "svc1"}[p.app]
		k.emit("pod", "update", k.podObj(p), fmt.Sprintf("pod %s relabelled app=%s", p.name, p.app))
	case op < 11: // delete (optionally through terminating)
		names := sortedKeys(k.pods)
		if len(names) == 0 {
			return
		}
		p := k.pods[names[tp.Choose(len(names), "which")]]
		if !p.terminating && tp.Bool(1, 2, "graceful") {
			p.terminating = true
			k.emit("pod", "update", k.podObj(p), fmt.Sprintf("pod %s terminating", p.name))
		} else {
			k.emit("pod", "delete", k.podObj(p), fmt.Sprintf("delete pod %s (ip %s is free for reuse)", p.name, p.ip))
			delete(k.pods, p.name)
		}
	default: // the EndpointSlice controller rebalances: an address moves to the other slice of its service
		// a move is two steps: the address first appears in the other slice too (transient duplicate), then it
		// is dropped from one of them - the old one (move completed) or the new one (moved back)
		ip := ips[tp.Choose(len(ips), "moveip")]
		if k.rule[ip] == 2 {
			k.rule[ip] = tp.Choose(2, "keepWhich")
		} else {
			k.rule[ip] = 2
		}
	}
	k.syncSlices()
}

func applyK8s(inst *wisInstance, ns string, ev kEvent) error {
	kc := inst.fds.KubeClient().Kube()
	ctx := context.Background()
	var err error
	switch o := ev.obj.DeepCopyObject().(type) {
	case *corev1.Pod:
		switch ev.verb {
		case "create":
			_, err = kc.CoreV1().Pods(ns).Create(ctx, o, metav1.CreateOptions{})
		case "update":
			_, err = kc.CoreV1().Pods(ns).Update(ctx, o, metav1.UpdateOptions{})
			if err == nil {
				_, err = kc.CoreV1().Pods(ns).UpdateStatus(ctx, o, metav1.UpdateOptions{})
			}
		default:
			err = kc.CoreV1().Pods(ns).Delete(ctx, o.Name, metav1.DeleteOptions{})
		}
	case *corev1.Service:
		switch ev.verb {
		case "create":
			_, err = kc.CoreV1().Services(ns).Create(ctx, o, metav1.CreateOptions{})
		case "update":
			_, err = kc.CoreV1().Services(ns).Update(ctx, o, metav1.UpdateOptions{})
		default:
			err = kc.CoreV1().Services(ns).Delete(ctx, o.Name, metav1.DeleteOptions{})
		}
	case *discoveryv1.EndpointSlice:
		switch ev.verb {
		case "create":
			_, err = kc.DiscoveryV1().EndpointSlices(ns).Create(ctx, o, metav1.CreateOptions{})
		case "update":
			_, err = kc.DiscoveryV1().EndpointSlices(ns).Update(ctx, o, metav1.UpdateOptions{})
		default:
			err = kc.DiscoveryV1().EndpointSlices(ns).Delete(ctx, o.Name, metav1.DeleteOptions{})
		}
	case *corev1.Node:
		_, err = kc.CoreV1().Nodes().Create(ctx, o, metav1.CreateOptions{})
	}
	return err
}

// shardDump is a canonical rendering of the endpoint index restricted to the cluster's services.
// shardDump renders the endpoint index. Services that end exported to nobody are left out: no proxy can observe
// their endpoints (whether the index holds any depends on whether a slice was seen before the Service).
func shardDump(inst *wisInstance, hidden map[string]bool) string {
	z := inst.fds.Discovery.Env.EndpointIndex.Shardz()
	var lines []string
	for svc, byNs := range z {
		if !strings.Contains(svc, ".svc.cluster.local") || hidden[svc] {
			continue
		}
		for ns, sh := range byNs {
			for key, eps := range sh.Shards {
				var es []string
				for _, e := range eps {
					if e.HealthStatus == model.Terminating {
						continue // never served to any proxy: its attributes are not observable
					}
					es = append(es, fmt.Sprintf("%v:%d|%s|%s|h%d|%s|%s", e.Addresses, e.EndpointPort, e.ServicePortName, e.ServiceAccount, e.HealthStatus, e.Labels["app"], e.Locality.Label))
				}
				sort.Strings(es)
				if len(es) > 0 {
					lines = append(lines, fmt.Sprintf("%s/%s@%s = %s", ns, svc, key.String(), strings.Join(es, " ")))
				}
			}
		}
	}
	sort.Strings(lines)
	return strings.Join(lines, "\n")
}

func serviceDump(inst *wisInstance) string {
	var lines []string
	for _, s := range inst.fds.KubeRegistry.Services() {
		var ps []string
		for _, p := range s.Ports {
			ps = append(ps, fmt.Sprintf("%s:%d/%s", p.Name, p.Port, p.Protocol))
		}
		lines = append(lines, fmt.Sprintf("%s res=%v vip=%s ports=%v", s.Hostname, s.Resolution, s.DefaultAddress, ps))
	}
	sort.Strings(lines)
	return strings.Join(lines, "\n")
}

func runC15(t *testing.T, r *engine.Run) {
	tp := r.T
	bubbleInit()
	db := debounceCfg{after: 10 * time.Millisecond, max: 50 * time.Millisecond}
	k := &kCluster{tp: tp, ns: "a", pods: map[string]*kPod{}, svcs: map[string]*kSvc{}, slices: map[string]*discoveryv1.EndpointSlice{},
		rule: map[string]int{}, q: map[string][]kEvent{}, ctime: metav1.NewTime(wlT0)}
	for i, n := range []string{"n1", "n2"} {
		k.emit("node", "create", &corev1.Node{ObjectMeta: metav1.ObjectMeta{Name: n, Labels: map[string]string{
			"topology.kubernetes.io/region": fmt.Sprintf("region%d", i+1), "topology.kubernetes.io/zone": fmt.Sprintf("zone%d", i+1)}}}, "create node "+n)
	}
	nsteps := 6 + tp.Choose(30, "ksteps")
	for i := 0; i < nsteps; i++ {
		k.step()
	}
	nsObj := &corev1.Namespace{ObjectMeta: metav1.ObjectMeta{Name: "a"}}
	inst := newWisInstance(t, "main", wisOpts{debounceAfter: db.after, debounceMax: db.max, kubeObjects: []runtime.Object{nsObj}})
	defer func() {
		inst.Close()
		synctest.Wait()
	}()
	w := newWis(t, r, inst)
	defer w.cancel()
	c := clientMenu[0].build(false)
	w.addClient(c)
	w.connect(c, inst, false)
	if !w.quiesce(inst, w.clients) {
		r.Inconclusive = "no initial quiescence"
		return
	}
	// ---- the interleaving of the per-type streams
	order := []string{"node", "svc", "pod", "slice"}
	podSeen, svcSeen := map[string]bool{}, map[string]bool{}
	svcHidden, sliceWhileHidden := map[string]bool{}, false
	total := 0
	for _, q := range k.q {
		total += len(q)
	}
	r.Logf("history: %d events (svc=%d pod=%d slice=%d)", total, len(k.q["svc"]), len(k.q["pod"]), len(k.q["slice"]))
	if k.dupEmitted > 0 {
		r.Probe("address_in_two_slices")
	}
	// swarm: some runs let one stream run far ahead of the others
	ahead := []string{"", "", "slice", "pod", "svc"}[tp.Choose(5, "streamAhead")]
	burst := 0
	for applied := 0; applied < total && !r.Failed(); applied++ {
		var avail []string
		for _, ty := range order {
			if len(k.q[ty]) > 0 {
				avail = append(avail, ty)
			}
		}
		if ahead != "" && len(k.q[ahead]) > 0 {
			avail = append(avail, ahead, ahead, ahead, ahead)
		}
		ty := avail[tp.Choose(len(avail), "stream")]
		ev := k.q[ty][0]
		k.q[ty] = k.q[ty][1:]
		tp.Note(ty + ":" + ev.verb)
		r.Steps++
		// probes for the unusual orders the property names
		switch o := ev.obj.(type) {
		case *corev1.Pod:
			podSeen[o.Name] = ev.verb != "delete"
			if !svcSeen[o.Labels["app"]] {
				r.Probe("pod_before_its_service")
			}
		case *corev1.Service:
			svcSeen[o.Name] = ev.verb != "delete"
			svcHidden[o.Name] = ev.verb != "delete" && o.Annotations["networking.istio.io/exportTo"] == "~"
		case *discoveryv1.EndpointSlice:
			if svcHidden[o.Labels[discoveryv1.LabelServiceName]] {
				// the input class of known finding "hid": a slice event handled while its Service is exported to nobody
				sliceWhileHidden = true
				r.Probe("slice_event_while_service_hidden")
			}
			for _, e := range o.Endpoints {
				if ev.verb != "delete" && !podSeen[e.TargetRef.Name] {
					r.Probe("endpoint_before_its_pod")
					r.NonTriv = true
				}
			}
			if ev.verb != "delete" && !svcSeen[o.Labels[discoveryv1.LabelServiceName]] {
				r.Probe("slice_before_its_service")
			}
		}
		if err := applyK8s(inst, k.ns, ev); err != nil {
			r.Logf("apply %s failed: %v", ev.desc, err)
		} else {
			r.Logf("%s", ev.desc)
		}
		// quiesce after each event or after a burst (controller-queue coalescing)
		if burst > 0 {
			burst--
		} else {
			synctest.Wait()
			if tp.Bool(1, 3, "advance") {
				w.advance(time.Duration(1+tp.Choose(80, "ms")) * time.Millisecond)
			}
			if tp.Bool(1, 4, "burst") {
				burst = 1 + tp.Choose(4, "burstlen")
			}
			w.deliverSome(tp, tp.Choose(4, "ndeliver"))
		}
	}
	synctest.Wait()
	if !w.quiesce(inst, w.clients) {
		r.Inconclusive = "no final quiescence"
		return
	}
	// give retry timers of the controller queues a chance, then quiesce again
	w.advance(2 * time.Second)
	if !w.quiesce(inst, w.clients) {
		r.Inconclusive = "no final quiescence"
		return
	}
	// ---- cold start on the final objects
	var final []runtime.Object
	final = append(final, nsObj)
	kc := inst.fds.KubeClient().Kube()
	ctx := context.Background()
	if l, err := kc.CoreV1().Nodes().List(ctx, metav1.ListOptions{}); err == nil {
		for i := range l.Items {
			final = append(final, l.Items[i].DeepCopy())
		}
	}
	if l, err := kc.CoreV1().Services("a").List(ctx, metav1.ListOptions{}); err == nil {
		for i := range l.Items {
			final = append(final, l.Items[i].DeepCopy())
		}
	}
	if l, err := kc.CoreV1().Pods("a").List(ctx, metav1.ListOptions{}); err == nil {
		for i := range l.Items {
			final = append(final, l.Items[i].DeepCopy())
		}
	}
	if l, err := kc.DiscoveryV1().EndpointSlices("a").List(ctx, metav1.ListOptions{}); err == nil {
		for i := range l.Items {
			final = append(final, l.Items[i].DeepCopy())
		}
	}
	for _, o := range final {
		if m, ok := o.(metav1.Object); ok {
			m.SetResourceVersion("")
		}
	}
	cold := newWisInstance(t, "cold", wisOpts{debounceAfter: db.after, debounceMax: db.max, kubeObjects: final})
	cw := newWis(t, r, cold)
	cc := clientMenu[0].build(false)
	cw.addClient(cc)
	cw.connect(cc, cold, false)
	ok := cw.quiesce(cold, cw.clients)
	if ok {
		cw.advance(2 * time.Second)
		ok = cw.quiesce(cold, cw.clients)
	}
	hiddenAtEnd := map[string]bool{}
	for _, sv := range k.svcs {
		if sv.exists && sv.hidden {
			hiddenAtEnd[sv.name+"."+k.ns+".svc.cluster.local"] = true
		}
	}
	coldShards, coldSvcs, coldView := shardDump(cold, hiddenAtEnd), serviceDump(cold), cc.heldView()
	cw.cut(cc)
	cw.cancel()
	cold.Close()
	synctest.Wait()
	if !ok {
		r.Inconclusive = "cold instance did not quiesce"
		return
	}
	r.Probe("checkpoints")
	if got := serviceDump(inst); got != coldSvcs {
		r.Fail("c15.services_differ", "", "services derived from the event history differ from a cold start on the final objects:\n-- history --\n%s\n-- cold --\n%s", got, coldSvcs)
		return
	}
	if got := shardDump(inst, hiddenAtEnd); got != coldShards {
		key := classifyShardDiff(got, coldShards)
		if sliceWhileHidden {
			key += "+hid"
		}
		r.Fail("c15.endpoints_differ", key, "endpoint index after the event history differs from a cold start on the final objects:\n-- history --\n%s\n-- cold --\n%s", got, coldShards)
		return
	}
	hv := c.heldView()
	canonEDS(hv)
	canonEDS(coldView)
	if d := diffViews(hv, coldView); len(d) > 0 {
		key := d[0].typ + ":" + d[0].kind
		if d[0].field != "" {
			key += ":" + d[0].field
		}
		r.Fail("c15.proxy_differs", "unique|"+key, "proxy %s differs from the proxy of a cold-started control plane:%s", c.name, fmtDiffs(d))
		return
	}
	w.cut(c)
	_ = model.Healthy
}

func firstDiffLine(a, b string) string {
	la, lb := strings.Split(a, "\n"), strings.Split(b, "\n")
	for i := 0; i < len(la) || i < len(lb); i++ {
		x, y := "", ""
		if i < len(la) {
			x = la[i]
		}
		if i < len(lb) {
			y = lb[i]
		}
		if x != y {
			if j := strings.Index(x+y, "@"); j > 0 {
				return strings.SplitN(x+y, "@", 2)[0]
			}
			return "line"
		}
	}
	return ""
}

// classifyShardDiff names the kind of the first difference between two shard dumps:
// missing:<health> (the cold start has an endpoint the history-built index lacks), extra:<health>, attr.
func classifyShardDiff(hist, cold string) string {
	parse := func(s string) map[string][]string {
		m := map[string][]string{}
		for _, l := range strings.Split(s, "\n") {
			parts := strings.SplitN(l, " = ", 2)
			if len(parts) != 2 {
				continue
			}
			for _, e := range strings.Fields(parts[1]) {
				f := strings.Split(e, "|")
				if len(f) == 6 {
					m[parts[0]+" "+f[0]+"|"+f[1]] = f
				}
			}
		}
		return m
	}
	h, c := parse(hist), parse(cold)
	for _, k := range sortedKeys(c) {
		if _, ok := h[k]; !ok {
			return "missing:" + c[k][3]
		}
	}
	for _, k := range sortedKeys(h) {
		if _, ok := c[k]; !ok {
			return "extra:" + h[k][3]
		}
	}
	names := []string{"addr", "portname", "serviceaccount", "health", "applabel", "locality"}
	for _, k := range sortedKeys(c) {
		for i := range names {
			if h[k][i] != c[k][i] {
				return "attr:" + names[i] + ":" + c[k][3]
			}
		}
	}
	return "attr"
}

// canonEDS replaces every ClusterLoadAssignment by a canonical rendering in which the order of localities and
// of endpoints inside a locality does not matter: C15 speaks of endpoint SETS (byte order is C17's subject).
func canonEDS(v map[string]map[string][]byte) {
	for t, m := range v {
		if shortType(t) != "ClusterLoadAssignment" {
			continue
		}
		for n, b := range m {
			cla := &endpointv3.ClusterLoadAssignment{}
			if proto.Unmarshal(b, cla) != nil {
				continue
			}
			var locs []string
			for _, l := range cla.Endpoints {
				var eps []string
				for _, le := range l.LbEndpoints {
					a := le.GetEndpoint().GetAddress().GetSocketAddress()
					eps = append(eps, fmt.Sprintf("%s:%d/%s/w%d/%v", a.GetAddress(), a.GetPortValue(), le.HealthStatus, le.GetLoadBalancingWeight().GetValue(), le.GetMetadata().GetFilterMetadata()["istio"].GetFields()["workload"].GetStringValue()))
				}
				sort.Strings(eps)
				locs = append(locs, fmt.Sprintf("%s/%s w%d p%d %v", l.Locality.GetRegion(), l.Locality.GetZone(), l.GetLoadBalancingWeight().GetValue(), l.Priority, eps))
			}
			sort.Strings(locs)
			m[n] = []byte(strings.Join(locs, "\n"))
		}
	}
}
