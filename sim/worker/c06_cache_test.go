package worker

import (
	"fmt"
	"os"
	"strings"
	"testing"
	"testing/synctest"

	core "github.com/envoyproxy/go-control-plane/envoy/config/core/v3"

	"istio.io/istio/pilot/pkg/features"
	"istio.io/istio/pilot/pkg/model"
	netcore "istio.io/istio/pilot/pkg/networking/core"
	v3 "istio.io/istio/pilot/pkg/xds/v3"
	"istio.io/istio/pkg/config/host"
	"istio.io/istio/pkg/simhook"
	"verif/sim/engine"
)

// C06: the response cache must be invisible (DESIGN 4.6). Several proxies that differ pairwise in exactly
// one attribute generation reads share one warm cache; tiny LRU sizes force eviction; the index flush is an
// explicit action; a connection that missed the EDS cache can be frozen with its freshly built value while
// mutations, invalidations and other proxies' reads run. Oracle at checkpoints: every held resource equals
// what a CACHE-DISABLED fresh replica sends that proxy.

func init() { register("c06", "C06", runC06) }

type c06Variant struct {
	name string
	mod  func(cs *clientSpec, n *core.Node, m *model.NodeMetadata)
}

var c06Variants = []c06Variant{
	{"base", nil},
	{"loc-r1", func(cs *clientSpec, n *core.Node, m *model.NodeMetadata) {
		n.Locality = &core.Locality{Region: "region1", Zone: "zone1"}
	}},
	{"loc-r2", func(cs *clientSpec, n *core.Node, m *model.NodeMetadata) {
		n.Locality = &core.Locality{Region: "region2", Zone: "zone2"}
	}},
	{"net1", func(cs *clientSpec, n *core.Node, m *model.NodeMetadata) { m.Network = "network1" }},
	{"cluster2", func(cs *clientSpec, n *core.Node, m *model.NodeMetadata) { m.ClusterID = "cluster2" }},
	{"v128", func(cs *clientSpec, n *core.Node, m *model.NodeMetadata) { m.IstioVersion = "1.28.0" }},
	{"dns", func(cs *clientSpec, n *core.Node, m *model.NodeMetadata) {
		m.DNSCapture = true
		m.DNSAutoAllocate = true
	}},
	{"bar", func(cs *clientSpec, n *core.Node, m *model.NodeMetadata) { m.Labels = map[string]string{"app": "bar"} }},
	{"ns-b", func(cs *clientSpec, n *core.Node, m *model.NodeMetadata) { m.Namespace = "b" }},
}

func c06Client(i int, v c06Variant) *xdsClient {
	ns := "a"
	m := &model.NodeMetadata{Namespace: ns, Labels: map[string]string{"app": "foo"}, ClusterID: "Kubernetes", IstioVersion: "1.30.0"}
	n := &core.Node{}
	if v.mod != nil {
		v.mod(nil, n, m)
	}
	n.Id = fmt.Sprintf("sidecar~10.3.1.%d~c6-%s.%s~%s.svc.cluster.local", i+1, v.name, m.Namespace, m.Namespace)
	n.Metadata = m.ToStruct()
	roots := []string{v3.ClusterType, v3.ListenerType}
	if m.DNSCapture {
		roots = append(roots, v3.NameTableType)
	}
	return newXdsClient("c6-"+v.name, n, false, roots)
}

func runC06(t *testing.T, r *engine.Run) {
	tp := r.T
	bubbleInit()
	defer simhook.SetHook(nil)
	db := pickDebounce(tp)
	prevSize := features.XDSCacheMaxSize
	features.XDSCacheMaxSize = []int{2, 8, prevSize}[tp.Choose(3, "cacheSize")]
	defer func() { features.XDSCacheMaxSize = prevSize }()
	r.Config["cacheSize"] = fmt.Sprint(features.XDSCacheMaxSize)
	inst := newWisInstance(t, "main", wisOpts{debounceAfter: db.after, debounceMax: db.max, noCache: os.Getenv("VERIF_DEBUG_NOCACHE") != ""}) // the debug switch tells a cache defect from a convergence defect when analysing a replay
	defer func() {
		inst.Close()
		synctest.Wait()
	}()
	w := newWis(t, r, inst)
	defer w.cancel()
	nclients := 2 + tp.Choose(3, "nclients")
	used := map[int]bool{}
	for len(w.clients) < nclients {
		i := tp.Choose(len(c06Variants), "variant")
		for used[i] {
			i = (i + 1) % len(c06Variants)
		}
		used[i] = true
		w.addClient(c06Client(len(w.clients), c06Variants[i]))
	}
	for _, c := range w.clients {
		w.connect(c, inst, false)
	}
	if !w.quiesce(inst, w.clients) {
		r.Inconclusive = "no initial quiescence"
		return
	}
	wd := newWorld(tp, []string{"ServiceEntry", "ServiceEntry", "DestinationRule", "DestinationRule", "PeerAuthentication", "Sidecar", "VirtualService", "WorkloadEntry"})
	defer func() {
		if wd.raced {
			r.Probe("pushrace_tagged_run")
		}
	}()
	wd.meshOn = tp.Bool(1, 2, "meshOn") // mesh configuration reloads: forced pushes, whose only cache invalidation is ClearAll
	// freeze point: one victim proxy parks on its EDS cache miss path
	var victim *xdsClient
	if tp.Bool(2, 3, "freeze") {
		victim = w.clients[tp.Choose(len(w.clients), "victim")]
		points := [][]string{{"cache.beforeAdd"}, {"cache.miss"}, {"cache.miss", "cache.beforeAdd"}}[tp.Choose(3, "points")]
		w.enableHooks(points...)
		vid := strings.Split(victim.node.Id, "~")[2]
		base := w.sched.Filter
		w.sched.Filter = func(point, key string) bool { return base(point, key) && strings.HasPrefix(key, vid+"/") }
		r.Config["victim"] = victim.name
	}
	maxSteps := 10 + tp.Choose(50, "maxsteps")
	if tier == "thorough" {
		maxSteps = 10 + tp.Choose(120, "maxsteps2")
	}
	r.Logf("clients=%v cacheSize=%d debounce=%v victim=%v", clientNames(w.clients), features.XDSCacheMaxSize, db, r.Config["victim"])

	checkpoint := func(after string) {
		if w.sched != nil {
			w.sched.Drain()
			synctest.Wait()
		}
		if !w.quiesce(inst, w.clients) {
			r.Inconclusive = "no quiescence at checkpoint " + after
			r.Probe("no_quiescence")
			return
		}
		o := inst.opts
		o.configs = inst.snapshotConfigs()
		o.noCache = true
		fresh, ok := w.freshViews(o, w.clients)
		if w.sched != nil {
			w.sched.SetPassthrough(false)
		}
		if !ok {
			r.Inconclusive = "cache-less replica did not quiesce"
			return
		}
		r.Probe("checkpoints")
		if n := os.Getenv("VERIF_DEBUG_CLA"); n != "" { // analysis aid: size of one endpoint resource per client, held and fresh
			for _, c := range w.clients {
				r.Logf("debug-cla: %s holds %d bytes of %s, its cache-less replica %d", c.name, len(c.heldView()[v3.EndpointType][n]), n, len(fresh[c.name][v3.EndpointType][n]))
			}
		}
		for _, c := range w.clients {
			d := diffViews(c.heldView(), fresh[c.name])
			if len(d) > 0 {
				key := wd.everTags() + "|" + d[0].typ + ":" + d[0].kind
				if d[0].field != "" {
					key += ":" + d[0].field
				}
				if os.Getenv("VERIF_DEBUG_DR") != "" {
					for i := max(0, len(c.recvLog)-14); i < len(c.recvLog); i++ {
						e := c.recvLog[i]
						r.Logf("debug: %s recv[%d] step=%d %s version=%s names=%v", c.name, i, e.step, shortType(e.typeURL), e.version, e.names)
					}
				}
				if h := os.Getenv("VERIF_DEBUG_DR"); h != "" { // analysis aid: which DestinationRules each proxy's scope holds for a host
					for _, con := range inst.fds.Discovery.AllClients() {
						p := con.Proxy()
						dr := p.SidecarScope.DestinationRule(model.TrafficDirectionOutbound, p, host.Name(h))
						r.Logf("debug: %s scope=%s/%s rule for %s: %v", p.ID, p.SidecarScope.Namespace, p.SidecarScope.Name, h, dr.GetFrom())
						rs, _ := netcore.NewConfigGenerator(model.DisabledCache{}).BuildHTTPRoutes(p, &model.PushRequest{Push: p.LastPushContext, Forced: true}, []string{"80"})
						for _, x := range rs {
							r.Logf("debug: %s regenerated route 80 now: allow_any=%v block_all=%v", p.ID, strings.Contains(string(x.Resource.Value), "allow_any"), strings.Contains(string(x.Resource.Value), "block_all"))
						}
						r.Logf("debug: %s last push %s mesh otp=%v scope otp=%v; global push %s mesh otp=%v; watcher otp=%v", p.ID, p.LastPushContext.PushVersion, p.LastPushContext.Mesh.GetOutboundTrafficPolicy().GetMode(),
							p.SidecarScope.OutboundTrafficPolicy.GetMode(), inst.fds.Env().PushContext().PushVersion, inst.fds.Env().PushContext().Mesh.GetOutboundTrafficPolicy().GetMode(), inst.fds.Env().Mesh().GetOutboundTrafficPolicy().GetMode())
					}
				}
				r.Fail("c06.differs_from_cacheless_generation", key, "after %s: proxy %s holds something a cache-disabled control plane does not generate for it:%s", after, c.name, fmtDiffs(d))
				return
			}
		}
	}
	nmut := 0
	for r.Steps = 0; r.Steps < maxSteps && !r.Failed() && !tp.Exhausted() && r.Inconclusive == ""; r.Steps++ {
		var acts []string
		if nmut < 20 {
			acts = append(acts, "mutate", "mutate", "mutate")
		}
		acts = append(acts, "gap", "gap", "flush")
		if parked := w.parkedHooks(); len(parked) == 0 {
			acts = append(acts, "checkpoint")
		} else {
			// a generator is frozen with a value built from the current state: favour what makes that value stale
			acts = append(acts, "mutate", "mutate", "mutate", "gap", "gap")
			for _, k := range parked {
				acts = append(acts, "release:"+k, "release:"+k)
			}
		}
		for ci, c := range w.clients {
			if w.hasParkedSend(c) {
				acts = append(acts, fmt.Sprintf("resp:%d", ci), fmt.Sprintf("resp:%d", ci))
			}
			if w.canDeliverReq(c) {
				acts = append(acts, fmt.Sprintf("req:%d", ci), fmt.Sprintf("req:%d", ci))
			}
		}
		for _, k := range w.parkedHooks() {
			acts = append(acts, "release:"+k)
		}
		if parked := w.parkedHooks(); len(parked) > 0 {
			acts = append(acts, "stale-writer", "stale-writer", "stale-writer")
		}
		a := acts[tp.Choose(len(acts), "act")]
		tp.Note(strings.SplitN(a, "/", 2)[0])
		var ci int
		switch {
		case a == "mutate":
			m := wd.next(tp)
			if err := m.apply(inst); err == nil {
				synctest.Wait()
				nmut++
				r.Logf("t=%v %s", w.now(), m.desc)
				if len(w.parkedHooks()) > 0 {
					r.Probe("mutation_while_generator_frozen")
					r.NonTriv = true
				}
			}
		case a == "stale-writer":
			// the classic stale-writer interleaving, placed deliberately: the endpoints of the frozen
			// generator's service change, the invalidations of that change run (at once and with the
			// debounced push), and only then the frozen generator is allowed to insert its old value
			k := w.parkedHooks()[0]
			parts := strings.Split(k, "|")
			host := parts[len(parts)-1]
			if m := wd.endpointChange(tp, host); m != nil && m.apply(inst) == nil {
				synctest.Wait()
				nmut++
				r.Logf("t=%v %s (while %s is frozen)", w.now(), m.desc, k)
				r.Probe("mutation_while_generator_frozen")
				r.Probe("stale_writer_scenario")
				r.NonTriv = true
				w.advance(db.max + db.after + 1_000_000)
				w.releaseHook(k)
				r.Probe("frozen_generator_released")
			}
		case a == "gap":
			w.gap(tp, db)
		case a == "flush":
			model.VerifFlushCache(inst.fds.Discovery.Cache)
			r.Fault("cache_flush_now")
		case a == "checkpoint":
			checkpoint(fmt.Sprintf("step %d", r.Steps))
		case strings.HasPrefix(a, "release:"):
			r.Logf("release %s", a[8:])
			w.releaseHook(a[8:])
			r.Probe("frozen_generator_released")
		default:
			if _, err := fmt.Sscanf(a, "resp:%d", &ci); err == nil {
				w.deliverResp(w.clients[ci])
			} else if _, err := fmt.Sscanf(a, "req:%d", &ci); err == nil {
				w.deliverReq(w.clients[ci])
			}
		}
	}
	if !r.Failed() && r.Inconclusive == "" {
		checkpoint("end of history")
	}
	if w.sched != nil {
		w.sched.Drain()
		synctest.Wait()
	}
	for _, c := range w.clients {
		w.cut(c)
	}
}
