package worker

import (
	"fmt"
	"sort"
	"strings"
	"sync"
	"sync/atomic"
	"testing"
	"testing/synctest"

	"istio.io/istio/pkg/kube/controllers"
	"istio.io/istio/pkg/kube/krt"
	"istio.io/istio/pkg/simhook"
	"verif/sim/engine"
)

// C16: krt graphs over static input collections (no Kubernetes). The simulator owns every internal
// collection queue (yield hook "queue.task" keyed by collection name), generates input histories and
// checks (1) every derived collection against a plain-Go recomputation from the CURRENT inputs and
// (2) every subscriber's event stream for per-key well-formedness and replay == final contents.

func init() { register("c16", "C16", runC16) }

type kObj struct {
	Name   string
	Ns     string
	Labels map[string]string
	Sel    map[string]string
	Val    int
}

func (k kObj) ResourceName() string                { return k.Ns + "/" + k.Name }
func (k kObj) GetLabels() map[string]string        { return k.Labels }
func (k kObj) GetLabelSelector() map[string]string { return k.Sel }
func (k kObj) GetNamespace() string                { return k.Ns }
func (k kObj) GetName() string                     { return k.Name }
func (k kObj) Equals(o kObj) bool {
	return k.Name == o.Name && k.Ns == o.Ns && k.Val == o.Val && fmt.Sprint(k.Labels) == fmt.Sprint(o.Labels) && fmt.Sprint(k.Sel) == fmt.Sprint(o.Sel)
}

type kOut struct {
	Key  string
	Data string
}

func (k kOut) ResourceName() string { return k.Key }
func (k kOut) Equals(o kOut) bool   { return k == o }

func subsetOf(sub, super map[string]string) bool {
	for k, v := range sub {
		if super[k] != v {
			return false
		}
	}
	return true
}

func describe(cs []kObj) string {
	var s []string
	for _, c := range cs {
		s = append(s, fmt.Sprintf("%s=%d", c.ResourceName(), c.Val))
	}
	sort.Strings(s)
	return strings.Join(s, ",")
}

// ---- the family of derived-collection shapes. Each has a krt construction and an independent recomputation.
type kShape struct {
	name string
	// build constructs the collection over inputs A and C (and the previously built collections).
	build func(g *kGraph) krt.Collection[kOut]
	// expect recomputes the contents from the current inputs with plain Go code.
	expect func(g *kGraph, a, c []kObj) map[string]string
}

type kGraph struct {
	stop   chan struct{}
	A, C   krt.StaticCollection[kObj]
	idxNs  krt.Index[string, kObj]
	idxApp krt.Index[string, kObj] // index on a MUTABLE attribute: an update can move an object to another index key
	built  map[string]krt.Collection[kOut]
}

func (g *kGraph) opts(name string) []krt.CollectionOption {
	return []krt.CollectionOption{krt.WithName(name), krt.WithStop(g.stop)}
}

var kShapes []kShape

func init() {
	kShapes = []kShape{
		{ // one-to-one, fetch filtered by label (C objects whose labels contain a.Sel); a.Val%5==0 yields nothing
			name: "byLabel",
			build: func(g *kGraph) krt.Collection[kOut] {
				return krt.NewCollection(g.A, func(ctx krt.HandlerContext, a kObj) *kOut {
					if a.Val%5 == 0 {
						return nil
					}
					cs := krt.Fetch(ctx, g.C, krt.FilterLabel(a.Sel))
					return &kOut{Key: "byLabel/" + a.ResourceName(), Data: fmt.Sprintf("%d|%s", a.Val, describe(cs))}
				}, g.opts("byLabel")...)
			},
			expect: func(g *kGraph, as, cs []kObj) map[string]string {
				out := map[string]string{}
				for _, a := range as {
					if a.Val%5 == 0 {
						continue
					}
					var m []kObj
					for _, c := range cs {
						if subsetOf(a.Sel, c.Labels) {
							m = append(m, c)
						}
					}
					out["byLabel/"+a.ResourceName()] = fmt.Sprintf("%d|%s", a.Val, describe(m))
				}
				return out
			},
		},
		{ // one-to-one, fetch by key computed from the value: the fetched object starts/stops existing
			name: "byKey",
			build: func(g *kGraph) krt.Collection[kOut] {
				return krt.NewCollection(g.A, func(ctx krt.HandlerContext, a kObj) *kOut {
					c := krt.FetchOne(ctx, g.C, krt.FilterKey(fmt.Sprintf("n%d/c%d", a.Val%2, a.Val%3)))
					d := "none"
					if c != nil {
						d = fmt.Sprint(c.Val)
					}
					return &kOut{Key: "byKey/" + a.ResourceName(), Data: fmt.Sprintf("%d|%s", a.Val, d)}
				}, g.opts("byKey")...)
			},
			expect: func(g *kGraph, as, cs []kObj) map[string]string {
				out := map[string]string{}
				for _, a := range as {
					d := "none"
					for _, c := range cs {
						if c.ResourceName() == fmt.Sprintf("n%d/c%d", a.Val%2, a.Val%3) {
							d = fmt.Sprint(c.Val)
						}
					}
					out["byKey/"+a.ResourceName()] = fmt.Sprintf("%d|%s", a.Val, d)
				}
				return out
			},
		},
		{ // one-to-many whose output keys move between parents (key = slot of the value; values are unique among A)
			name: "slots",
			build: func(g *kGraph) krt.Collection[kOut] {
				return krt.NewManyCollection(g.A, func(ctx krt.HandlerContext, a kObj) []kOut {
					var out []kOut
					for i := 0; i < a.Val%3; i++ {
						out = append(out, kOut{Key: fmt.Sprintf("slots/%d-%d", a.Val, i), Data: a.ResourceName()})
					}
					return out
				}, g.opts("slots")...)
			},
			expect: func(g *kGraph, as, cs []kObj) map[string]string {
				out := map[string]string{}
				for _, a := range as {
					for i := 0; i < a.Val%3; i++ {
						out[fmt.Sprintf("slots/%d-%d", a.Val, i)] = a.ResourceName()
					}
				}
				return out
			},
		},
		{ // selector semantics the other way round: C objects whose SELECTOR selects a's labels, plus namespace index
			name: "selectedBy",
			build: func(g *kGraph) krt.Collection[kOut] {
				return krt.NewCollection(g.A, func(ctx krt.HandlerContext, a kObj) *kOut {
					sel := krt.Fetch(ctx, g.C, krt.FilterSelects(a.Labels))
					same := krt.Fetch(ctx, g.C, krt.FilterIndex(g.idxNs, a.Ns))
					return &kOut{Key: "selectedBy/" + a.ResourceName(), Data: fmt.Sprintf("%s|%s", describe(sel), describe(same))}
				}, g.opts("selectedBy")...)
			},
			expect: func(g *kGraph, as, cs []kObj) map[string]string {
				out := map[string]string{}
				for _, a := range as {
					var sel, same []kObj
					for _, c := range cs {
						if subsetOf(c.Sel, a.Labels) {
							sel = append(sel, c)
						}
						if c.Ns == a.Ns {
							same = append(same, c)
						}
					}
					out["selectedBy/"+a.ResourceName()] = fmt.Sprintf("%s|%s", describe(sel), describe(same))
				}
				return out
			},
		},
		{ // singleton over everything
			name: "total",
			build: func(g *kGraph) krt.Collection[kOut] {
				return krt.NewSingleton(func(ctx krt.HandlerContext) *kOut {
					as := krt.Fetch(ctx, g.A)
					cs := krt.Fetch(ctx, g.C, krt.FilterGeneric(func(o any) bool { return o.(kObj).Val%2 == 1 }))
					if len(as) == 0 {
						return nil
					}
					return &kOut{Key: "total", Data: describe(as) + "|" + describe(cs)}
				}, g.opts("total")...).AsCollection()
			},
			expect: func(g *kGraph, as, cs []kObj) map[string]string {
				if len(as) == 0 {
					return map[string]string{}
				}
				var odd []kObj
				for _, c := range cs {
					if c.Val%2 == 1 {
						odd = append(odd, c)
					}
				}
				return map[string]string{"total": describe(as) + "|" + describe(odd)}
			},
		},
		{ // a collection derived from a derived collection, fetching another derived collection
			name: "second",
			build: func(g *kGraph) krt.Collection[kOut] {
				base := g.built["byLabel"]
				slots := g.built["slots"]
				return krt.NewCollection(base, func(ctx krt.HandlerContext, b kOut) *kOut {
					n := len(krt.Fetch(ctx, slots))
					return &kOut{Key: "second/" + b.Key, Data: fmt.Sprintf("%s#%d", b.Data, n)}
				}, g.opts("second")...)
			},
			expect: func(g *kGraph, as, cs []kObj) map[string]string {
				out := map[string]string{}
				n := len(kShapes[2].expect(g, as, cs))
				for k, d := range kShapes[0].expect(g, as, cs) {
					out["second/"+k] = fmt.Sprintf("%s#%d", d, n)
				}
				return out
			},
		},
		{ // fetch only through an index on a mutable attribute: the fetched object moves into and out of the key
			name: "byAppIndex",
			build: func(g *kGraph) krt.Collection[kOut] {
				return krt.NewCollection(g.A, func(ctx krt.HandlerContext, a kObj) *kOut {
					cs := krt.Fetch(ctx, g.C, krt.FilterIndex(g.idxApp, a.Labels["app"]))
					return &kOut{Key: "byAppIndex/" + a.ResourceName(), Data: describe(cs)}
				}, g.opts("byAppIndex")...)
			},
			expect: func(g *kGraph, as, cs []kObj) map[string]string {
				out := map[string]string{}
				for _, a := range as {
					var m []kObj
					for _, c := range cs {
						if c.Labels["app"] == a.Labels["app"] {
							m = append(m, c)
						}
					}
					out["byAppIndex/"+a.ResourceName()] = describe(m)
				}
				return out
			},
		},
		{ // checked join of two collections with OVERLAPPING keys: the first collection wins, the second is the fallback
			name: "ojoin",
			build: func(g *kGraph) krt.Collection[kOut] {
				p := krt.NewCollection(g.A, func(ctx krt.HandlerContext, a kObj) *kOut {
					if a.Val%2 == 1 {
						return nil
					}
					return &kOut{Key: "o/" + a.ResourceName(), Data: fmt.Sprintf("P%d", a.Val)}
				}, g.opts("ojoinP")...)
				q := krt.NewCollection(g.A, func(ctx krt.HandlerContext, a kObj) *kOut {
					if a.Val%3 == 0 {
						return nil
					}
					return &kOut{Key: "o/" + a.ResourceName(), Data: fmt.Sprintf("Q%d", a.Val)}
				}, g.opts("ojoinQ")...)
				return krt.JoinCollection([]krt.Collection[kOut]{p, q}, g.opts("ojoin")...)
			},
			expect: func(g *kGraph, as, cs []kObj) map[string]string {
				out := map[string]string{}
				for _, a := range as {
					switch {
					case a.Val%2 == 0:
						out["o/"+a.ResourceName()] = fmt.Sprintf("P%d", a.Val)
					case a.Val%3 != 0:
						out["o/"+a.ResourceName()] = fmt.Sprintf("Q%d", a.Val)
					}
				}
				return out
			},
		},
		{ // join of two collections with disjoint keys
			name: "join",
			build: func(g *kGraph) krt.Collection[kOut] {
				return krt.JoinCollection([]krt.Collection[kOut]{g.built["byKey"], g.built["slots"]}, g.opts("join")...)
			},
			expect: func(g *kGraph, as, cs []kObj) map[string]string {
				out := kShapes[1].expect(g, as, cs)
				for k, v := range kShapes[2].expect(g, as, cs) {
					out[k] = v
				}
				return out
			},
		},
		{ // one-to-one, fetch by a key SET computed from the value; the set may be empty (non-nil) and then selects nothing
			name: "byKeys",
			build: func(g *kGraph) krt.Collection[kOut] {
				return krt.NewCollection(g.A, func(ctx krt.HandlerContext, a kObj) *kOut {
					keys := []string{}
					for i := 0; i < a.Val%3; i++ {
						keys = append(keys, fmt.Sprintf("n%d/c%d", i%2, i))
					}
					cs := krt.Fetch(ctx, g.C, krt.FilterKeys(keys...))
					return &kOut{Key: "byKeys/" + a.ResourceName(), Data: fmt.Sprintf("%d|%s", a.Val, describe(cs))}
				}, g.opts("byKeys")...)
			},
			expect: func(g *kGraph, as, cs []kObj) map[string]string {
				out := map[string]string{}
				for _, a := range as {
					var sel []kObj
					for i := 0; i < a.Val%3; i++ {
						for _, c := range cs {
							if c.ResourceName() == fmt.Sprintf("n%d/c%d", i%2, i) {
								sel = append(sel, c)
							}
						}
					}
					out["byKeys/"+a.ResourceName()] = fmt.Sprintf("%d|%s", a.Val, describe(sel))
				}
				return out
			},
		},
	}
}

// ---- event-stream checker -------------------------------------------------------------------------

type kSub struct {
	name string
	// park: when set and live, a delivery waits for the simulator before the events are read (the order in which the
	// subscribers of one collection consume a batch is then the simulator's choice)
	park   func(point, key string)
	live   atomic.Bool
	mu     sync.Mutex
	state  map[string]string // contents reconstructed from the events
	errs   []string
	events int
}

func (s *kSub) handle(evs []krt.Event[kOut]) {
	if s.park != nil && s.live.Load() {
		s.park("recorder", s.name)
	}
	s.mu.Lock()
	defer s.mu.Unlock()
	for _, e := range evs {
		s.events++
		switch e.Event {
		case controllers.EventAdd:
			if e.New == nil {
				s.errs = append(s.errs, "add without New")
				continue
			}
			if _, ok := s.state[e.New.Key]; ok {
				s.errs = append(s.errs, fmt.Sprintf("duplicate add of %s", e.New.Key))
			}
			s.state[e.New.Key] = e.New.Data
		case controllers.EventUpdate:
			if e.New == nil || e.Old == nil {
				s.errs = append(s.errs, "update without Old/New")
				continue
			}
			cur, ok := s.state[e.New.Key]
			if !ok {
				s.errs = append(s.errs, fmt.Sprintf("update of unknown key %s", e.New.Key))
			} else if cur != e.Old.Data {
				s.errs = append(s.errs, fmt.Sprintf("update of %s: Old=%q but last delivered value was %q", e.New.Key, e.Old.Data, cur))
			}
			s.state[e.New.Key] = e.New.Data
		case controllers.EventDelete:
			if e.Old == nil {
				s.errs = append(s.errs, "delete without Old")
				continue
			}
			if _, ok := s.state[e.Old.Key]; !ok {
				s.errs = append(s.errs, fmt.Sprintf("delete of unknown key %s", e.Old.Key))
			}
			delete(s.state, e.Old.Key)
		}
	}
}

func mapStr(m map[string]string) string {
	ks := make([]string, 0, len(m))
	for k := range m {
		ks = append(ks, k)
	}
	sort.Strings(ks)
	var b strings.Builder
	for _, k := range ks {
		fmt.Fprintf(&b, "%s=%q ", k, m[k])
	}
	return b.String()
}

func runC16(t *testing.T, r *engine.Run) {
	tp := r.T
	quietLogs()
	simhook.SetSpinWait(true)
	defer simhook.SetHook(nil)
	g := &kGraph{stop: make(chan struct{}), built: map[string]krt.Collection[kOut]{}}
	defer func() {
		close(g.stop)
		synctest.Wait()
	}()
	sched := engine.NewSched()
	controlled := tp.Bool(3, 4, "controlQueues")
	names := map[string]bool{}
	for _, s := range kShapes {
		names[s.name] = true // fixed before any collection goroutine starts (the filter reads it concurrently)
	}
	names["ojoinP"], names["ojoinQ"] = true, true
	parkRecorders := tp.Bool(1, 2, "parkRecorders")
	sched.Filter = func(point, key string) bool {
		return controlled && (point == "queue.task" && names[key] || point == "recorder" && parkRecorders)
	}
	simhook.SetHook(sched.Yield)

	// inputs
	var as, cs []kObj
	labelSets := []map[string]string{{"app": "x"}, {"app": "y"}, {"app": "x", "tier": "t"}, {}}
	selSets := []map[string]string{{"app": "x"}, {"app": "y"}, {"tier": "t"}, {}}
	usedVals := map[int]bool{}
	freshVal := func() int {
		for {
			v := 1 + tp.Choose(12, "val")
			if !usedVals[v] {
				return v
			}
			for w := 1; w <= 40; w++ {
				if !usedVals[w] {
					return w
				}
			}
		}
	}
	mkA := func(i int) kObj {
		v := freshVal()
		usedVals[v] = true
		return kObj{Name: fmt.Sprintf("a%d", i), Ns: fmt.Sprintf("n%d", i%2), Labels: labelSets[tp.Choose(len(labelSets), "alabels")], Sel: selSets[tp.Choose(len(selSets), "asel")], Val: v}
	}
	mkC := func(i int) kObj {
		return kObj{Name: fmt.Sprintf("c%d", i%3), Ns: fmt.Sprintf("n%d", i%2), Labels: labelSets[tp.Choose(len(labelSets), "clabels")], Sel: selSets[tp.Choose(len(selSets), "csel")], Val: tp.Choose(9, "cval")}
	}
	for i := 0; i < tp.Choose(3, "initA"); i++ {
		as = append(as, mkA(i))
	}
	for i := 0; i < tp.Choose(3, "initC"); i++ {
		c := mkC(i)
		dup := false
		for _, x := range cs {
			if x.ResourceName() == c.ResourceName() {
				dup = true
			}
		}
		if !dup {
			cs = append(cs, c)
		}
	}
	g.A = krt.NewStaticCollection[kObj](nil, as, krt.WithName("A"), krt.WithStop(g.stop))
	g.C = krt.NewStaticCollection[kObj](nil, cs, krt.WithName("C"), krt.WithStop(g.stop))
	g.idxNs = krt.NewIndex[string, kObj](g.C, "ns", func(o kObj) []string { return []string{o.Ns} })
	g.idxApp = krt.NewIndex[string, kObj](g.C, "app", func(o kObj) []string { return []string{o.Labels["app"]} })

	// choose shapes (dependencies first)
	want := map[string]bool{}
	for _, s := range kShapes {
		if tp.Bool(1, 2, "shape:"+s.name) {
			want[s.name] = true
		}
	}
	if want["second"] {
		want["byLabel"], want["slots"] = true, true
	}
	if want["join"] {
		want["byKey"], want["slots"] = true, true
	}
	if len(want) == 0 {
		want["byLabel"] = true
	}
	var shapes []kShape
	subs := map[string][]*kSub{}
	for _, s := range kShapes {
		if !want[s.name] {
			continue
		}
		col := s.build(g)
		g.built[s.name] = col
		shapes = append(shapes, s)
		sub := &kSub{name: s.name + "/early", state: map[string]string{}, park: sched.Yield}
		col.RegisterBatch(sub.handle, true)
		subs[s.name] = append(subs[s.name], sub)
	}
	synctest.Wait()
	for _, ss := range subs {
		for _, sub := range ss {
			sub.live.Store(true)
		}
	}
	var shapeNames []string
	for _, s := range shapes {
		shapeNames = append(shapeNames, s.name)
	}
	r.Logf("shapes=%v controlled=%v initial A=%v C=%v", shapeNames, controlled, describe(as), describe(cs))

	curA := map[string]kObj{}
	curC := map[string]kObj{}
	for _, a := range as {
		curA[a.ResourceName()] = a
	}
	for _, c := range cs {
		curC[c.ResourceName()] = c
	}
	list := func(m map[string]kObj) []kObj {
		var out []kObj
		for _, v := range m {
			out = append(out, v)
		}
		sort.Slice(out, func(i, j int) bool { return out[i].ResourceName() < out[j].ResourceName() })
		return out
	}
	quiesce := func() bool {
		for i := 0; i < 5000; i++ {
			p := sched.Parked()
			if len(p) == 0 {
				return true
			}
			sched.Release(p[0])
			synctest.Wait()
		}
		return false
	}
	check := func(where string) {
		if !quiesce() {
			r.Inconclusive = "krt did not quiesce"
			return
		}
		r.Probe("checkpoints")
		a, c := list(curA), list(curC)
		for _, s := range shapes {
			col := g.built[s.name]
			got := map[string]string{}
			for _, o := range col.List() {
				if _, dup := got[o.Key]; dup {
					r.Fail("c16.duplicate_key_in_list", s.name, "%s: List of %s returns key %s twice", where, s.name, o.Key)
					return
				}
				got[o.Key] = o.Data
			}
			exp := s.expect(g, a, c)
			if mapStr(got) != mapStr(exp) {
				r.Fail("c16.contents_differ_from_recomputation", s.name, "%s: collection %s holds {%s}, recomputation from the current inputs gives {%s} (A=%s C=%s)", where, s.name, mapStr(got), mapStr(exp), describe(a), describe(c))
				return
			}
			for k, d := range exp {
				if o := col.GetKey(k); o == nil || o.Data != d {
					r.Fail("c16.getkey_differs", s.name, "%s: %s.GetKey(%s) = %v, want %q", where, s.name, k, o, d)
					return
				}
			}
			for _, sub := range subs[s.name] {
				sub.mu.Lock()
				errs, st := append([]string(nil), sub.errs...), mapStr(sub.state)
				sub.mu.Unlock()
				if len(errs) > 0 {
					kind := strings.Join(strings.Fields(errs[0])[:2], "_")
					r.Fail("c16.event_stream_malformed", sub.name+":"+kind, "%s: subscriber %s: %s", where, sub.name, strings.Join(errs, "; "))
					return
				}
				if st != mapStr(exp) {
					r.Fail("c16.event_replay_differs", sub.name, "%s: replaying the events of subscriber %s gives {%s}, contents are {%s}", where, sub.name, st, mapStr(exp))
					return
				}
			}
		}
	}
	check("initial sync")

	nops := 5 + tp.Choose(40, "nops")
	lateDone := false
	for i := 0; i < nops && !r.Failed() && r.Inconclusive == "" && !tp.Exhausted(); i++ {
		r.Steps++
		var acts []string
		acts = append(acts, "A", "A", "A", "C", "C", "check")
		parked := sched.Parked()
		acts = append(acts, parked...)
		acts = append(acts, parked...)
		if !lateDone {
			acts = append(acts, "late")
		}
		a := acts[tp.Choose(len(acts), "act")]
		tp.Note(a)
		switch a {
		case "check":
			check(fmt.Sprintf("step %d", i))
		case "late":
			// late handler registration (with and without existing state replay is RegisterBatch's flag; without
			// replay the stream cannot be checked from an empty state, so only the replaying form is checked)
			lateDone = true
			s := shapes[tp.Choose(len(shapes), "lateShape")]
			sub := &kSub{name: s.name + "/late", state: map[string]string{}, park: sched.Yield}
			g.built[s.name].RegisterBatch(sub.handle, true)
			subs[s.name] = append(subs[s.name], sub)
			r.Probe("late_handler")
			synctest.Wait()
			sub.live.Store(true)
		case "A", "C":
			cur, col := curA, g.A
			if a == "C" {
				cur, col = curC, g.C
			}
			keys := make([]string, 0, len(cur))
			for k := range cur {
				keys = append(keys, k)
			}
			sort.Strings(keys)
			op := tp.Choose(7, "op")
			switch {
			case op == 6 && a == "C": // Reset: the whole input is replaced in one call (some keys kept as they are, some kept with new contents, some dropped, some new)
				next := map[string]kObj{}
				for _, k := range keys {
					switch tp.Choose(3, "resetKeep") {
					case 0: // dropped
					case 1: // kept unchanged
						next[k] = cur[k]
					default: // kept, contents (labels incl. the indexed attribute, selector, value) redrawn
						i := 0
						for ; i < 6; i++ {
							if fmt.Sprintf("n%d/c%d", i%2, i%3) == k {
								break
							}
						}
						o := mkC(i)
						next[o.ResourceName()] = o
						r.Probe("reset_changes_retained_key")
					}
				}
				for n := tp.Choose(3, "resetAdd"); n > 0; n-- {
					o := mkC(tp.Choose(6, "cidx"))
					if _, ok := next[o.ResourceName()]; !ok {
						next[o.ResourceName()] = o
					}
				}
				for k := range cur {
					delete(cur, k)
				}
				nks := make([]string, 0, len(next))
				for k := range next {
					nks = append(nks, k)
				}
				sort.Strings(nks)
				list := make([]kObj, 0, len(next))
				for _, k := range nks {
					cur[k] = next[k]
					list = append(list, next[k])
				}
				col.Reset(list)
				r.Logf("C reset to %v", nks)
				r.Probe("static_reset")
			case op == 0 && len(keys) > 0: // delete
				k := keys[tp.Choose(len(keys), "key")]
				if a == "A" {
					delete(usedVals, cur[k].Val)
				}
				delete(cur, k)
				col.DeleteObject(k)
				r.Logf("%s delete %s", a, k)
			case op == 1 && len(keys) > 0: // no-op update
				k := keys[tp.Choose(len(keys), "key")]
				col.UpdateObject(cur[k])
				r.Logf("%s no-op update %s", a, k)
				r.Probe("noop_update")
			default: // add or update
				var o kObj
				if a == "A" {
					i := tp.Choose(4, "aidx")
					name := fmt.Sprintf("n%d/a%d", i%2, i)
					if old, ok := cur[name]; ok {
						delete(usedVals, old.Val)
					}
					o = mkA(i)
				} else {
					o = mkC(tp.Choose(6, "cidx"))
				}
				cur[o.ResourceName()] = o
				col.UpdateObject(o)
				r.Logf("%s upsert %s val=%d labels=%v sel=%v", a, o.ResourceName(), o.Val, o.Labels, o.Sel)
			}
			if len(parked) > 0 {
				r.Probe("input_change_while_queue_task_parked")
				r.NonTriv = true
			}
			synctest.Wait()
		default:
			sched.Release(a)
			synctest.Wait()
		}
	}
	if !r.Failed() && r.Inconclusive == "" {
		check("end of history")
	}
	sched.Drain()
	synctest.Wait()
}
