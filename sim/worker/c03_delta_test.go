package worker

import (
	"fmt"
	"os"
	"testing"
	"testing/synctest"

	v3 "istio.io/istio/pilot/pkg/xds/v3"
	"verif/sim/engine"
)

// C03: paired clients (one SotW, one delta, identical node) on one simulated istiod, same history
// (DESIGN 4.3). At every checkpoint the delta client's accumulated set must equal the SotW client's.

func init() { register("c03", "C03", runC03) }

func runC03(t *testing.T, r *engine.Run) {
	tp := r.T
	bubbleInit()
	db := pickDebounce(tp)
	inst := newWisInstance(t, "main", wisOpts{debounceAfter: db.after, debounceMax: db.max})
	defer func() {
		inst.Close()
		synctest.Wait()
	}()
	w := newWis(t, r, inst)
	defer w.cancel()
	type pair struct{ sotw, delta *xdsClient }
	var pairs []pair
	npairs := 1 + tp.Choose(2, "npairs")
	used := map[int]bool{}
	for len(pairs) < npairs {
		i := tp.Choose(len(clientMenu), "client")
		if used[i] {
			i = (i + 1) % len(clientMenu)
			if used[i] {
				break
			}
		}
		used[i] = true
		p := pair{clientMenu[i].build(false), clientMenu[i].build(true)}
		pairs = append(pairs, p)
		w.addClient(p.sotw)
		w.addClient(p.delta)
	}
	for _, c := range w.clients {
		w.connect(c, inst, false)
	}
	if !w.quiesce(inst, w.clients) {
		r.Inconclusive = "no initial quiescence"
		return
	}
	wd := newWorld(tp, nil)
	defer func() {
		if wd.raced {
			r.Probe("pushrace_tagged_run")
		}
	}()
	nmut := 2 + tp.Choose(14, "nmut")
	if tier == "thorough" {
		nmut = 2 + tp.Choose(30, "nmut2")
	}
	prefix := tp.Bool(1, 2, "prefixMode")
	r.Logf("clients=%v kinds=%v debounce=%v prefix=%v", clientNames(w.clients), wd.kinds, db, prefix)

	compare := func(after string) {
		if !w.quiesce(inst, w.clients) {
			r.Inconclusive = "no quiescence at checkpoint " + after
			r.Probe("no_quiescence")
			return
		}
		r.Probe("checkpoints")
		for _, p := range pairs {
			sv, dv := p.sotw.heldView(), p.delta.heldView()
			// ECDS is never removed for delta clients by design; compare only types both subscribe to
			for t := range dv {
				if _, ok := sv[t]; !ok {
					delete(dv, t)
				}
			}
			d := diffViews(dv, sv) // "extra" = the delta client holds something the SotW client does not
			r.Probe("pairs_compared")
			if len(d) > 0 {
				key := wd.everTags() + "|" + d[0].typ + ":" + d[0].kind
				if d[0].field != "" {
					key += ":" + d[0].field
				}
				tail := 6
				if os.Getenv("VERIF_DEBUG_LOGS") != "" {
					tail = 1000
				}
				n := len(p.delta.recvLog)
				for i := max(0, n-tail); i < n; i++ {
					e := p.delta.recvLog[i]
					r.Logf("  %s recv[%d] step=%d %s names=%v removed=%v", p.delta.name, i, e.step, shortType(e.typeURL), e.names, e.removed)
				}
				for _, c := range []*xdsClient{p.sotw, p.delta} {
					for _, l := range c.sentLog[max(0, len(c.sentLog)-tail-2):] {
						r.Logf("  %s sent: %s", c.name, l)
					}
				}
				n = len(p.sotw.recvLog)
				for i := max(0, n-tail); i < n; i++ {
					e := p.sotw.recvLog[i]
					r.Logf("  %s recv[%d] step=%d %s names=%v", p.sotw.name, i, e.step, shortType(e.typeURL), e.names)
				}
				r.Fail("c03.delta_differs_from_sotw", key, "after %s: delta client %s differs from its state-of-the-world twin (extra = only the delta client holds it):%s", after, p.delta.name, fmtDiffs(d))
				return
			}
		}
	}
	removedSeen := func() int {
		n := 0
		for _, p := range pairs {
			for _, e := range p.delta.recvLog {
				n += len(e.removed)
			}
		}
		return n
	}
	for i := 0; i < nmut && !r.Failed() && !tp.Exhausted(); i++ {
		// client-initiated subscription change mid-history: both twins drop one EDS name and subscribe to it
		// again at once (two consecutive requests); the re-added name must be answered for both.
		// Only at a quiet point: a state-of-the-world request that crosses a response in flight carries a stale nonce
		// and is ignored by the server as the protocol prescribes, after which the twins legitimately differ (the
		// delta protocol processes subscription changes whatever the nonce) - that race is the protocol's, not C03's.
		if tp.Bool(1, 6, "resub") && w.quiesce(inst, w.clients) {
			p := pairs[tp.Choose(len(pairs), "resubpair")]
			if names := sortedNames(p.sotw.state(v3.EndpointType).names); len(names) > 1 {
				victim := names[tp.Choose(len(names), "victim")]
				for _, c := range []*xdsClient{p.sotw, p.delta} {
					if _, ok := c.state(v3.EndpointType).names[victim]; !ok {
						continue
					}
					full := map[string]struct{}{}
					cur := map[string]struct{}{}
					for n := range c.state(v3.EndpointType).names {
						full[n] = struct{}{}
						if n != victim {
							cur[n] = struct{}{}
						}
					}
					c.resubscribe(v3.EndpointType, cur)
					c.resubscribe(v3.EndpointType, full)
				}
				r.Logf("both twins of %s unsubscribe and re-subscribe EDS %s", p.sotw.name, victim)
				r.Probe("client_resubscribe")
				// ... and the two requests are delivered and answered before anything else happens (see above)
				if !w.quiesce(inst, w.clients) {
					r.Inconclusive = "no quiescence after client resubscribe"
					return
				}
			}
		}
		m := wd.next(tp)
		if err := m.apply(inst); err != nil {
			r.Logf("mutation %s failed: %v", m.desc, err)
			continue
		}
		synctest.Wait()
		r.Steps++
		tp.Note("mut:" + m.kind)
		r.Logf("t=%v %s", w.now(), m.desc)
		w.gap(tp, db)
		w.deliverSome(tp, tp.Choose(8, "ndeliver"))
		if prefix || i == nmut-1 {
			compare(m.desc)
		}
	}
	if !prefix && !r.Failed() {
		compare("end of history")
	}
	if removedSeen() > 0 {
		r.NonTriv = true
		r.Probe("delta_removed_resources")
	}
	r.Config["pairs"] = fmt.Sprint(len(pairs))
	for _, c := range w.clients {
		w.cut(c)
	}
}
