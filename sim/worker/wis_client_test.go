package worker

import (
	"fmt"
	"os"
	"sort"
	"strings"
	"time"

	cluster "github.com/envoyproxy/go-control-plane/envoy/config/cluster/v3"
	core "github.com/envoyproxy/go-control-plane/envoy/config/core/v3"
	endpoint "github.com/envoyproxy/go-control-plane/envoy/config/endpoint/v3"
	listener "github.com/envoyproxy/go-control-plane/envoy/config/listener/v3"
	route "github.com/envoyproxy/go-control-plane/envoy/config/route/v3"
	hcm "github.com/envoyproxy/go-control-plane/envoy/extensions/filters/network/http_connection_manager/v3"
	tls "github.com/envoyproxy/go-control-plane/envoy/extensions/transport_sockets/tls/v3"
	discovery "github.com/envoyproxy/go-control-plane/envoy/service/discovery/v3"
	"google.golang.org/genproto/googleapis/rpc/status"
	"google.golang.org/protobuf/proto"
	"google.golang.org/protobuf/types/known/anypb"

	v3 "istio.io/istio/pilot/pkg/xds/v3"
)

// Protocol-conformant xDS client models (Envoy-like SotW ADS and delta ADS). They are state machines
// driven by the simulator: a response is processed only when the simulator delivers it, and the
// requests they produce are queued until the simulator delivers them to the server.

type heldRes struct {
	version string
	bytes   []byte
}

type subState struct {
	typeURL   string
	wildcard  bool
	names     map[string]struct{} // explicit subscription (non-wildcard types)
	version   string              // last accepted version (SotW)
	nonce     string              // last received nonce on the current stream
	held      map[string]heldRes
	order     []string // resource order of the last response (C17)
	requested bool     // a request of this type was sent on the current stream
	lastReq   []string // names in the last request sent on the current stream (sorted)
	rejected  bool     // last message for this type was a NACK
	responses int
}

type recvEvent struct {
	step     int
	typeURL  string
	nonce    string
	version  string
	names    []string
	removed  []string
	accepted bool
}

type xdsClient struct {
	name    string
	node    *core.Node
	delta   bool
	roots   []string // root types requested on connect, in order
	sub     map[string]*subState
	outq    []proto.Message
	recvLog []recvEvent
	sentLog []string // requests handed to the server (compact), newest last

	// per-stream
	sotw      *sotwStream
	dstr      *deltaStream
	streamEnd chan error
	connected bool
	streams   int
	nodeSent  bool

	// names answered (resource sent or, for delta, removed) per type on the current stream
	answered map[string]map[string]struct{}
	inst     *wisInstance

	// transport credentials of the simulated connection (C11): tls = the stream carries TLS peer info;
	// identities = what the simulator's authenticator reports for it (nil = authentication fails)
	tls        bool
	identities []string

	// behaviour knobs
	nackNext map[string]bool
	// derive dependent subscriptions from root contents (EDS from CDS, RDS and ECDS from LDS)
	deriveDeps bool
	// presentNonce: a delta client's first request of a type on a new stream carries the nonce of the old stream
	// (state-of-the-world requests always carry the retained version and nonce)
	presentNonce bool
	// Envoy's cluster warming on a new stream (envoyproxy/envoy#13009): when the endpoint request preceded the cluster
	// request on this stream, the clusters of the first cluster response warm, Envoy asks for their endpoints again
	// (same names, nonce of the endpoint response it already acknowledged) and waits for an answer.
	permuted    bool // dependents were requested before their roots on the current stream
	cdsSeen     bool // a cluster response was accepted on the current stream
	warmPending bool // the re-request after the first cluster response has not been answered yet
	// lateRoots: with permuted order, the root subscriptions (CDS, LDS) start only after the first response to a
	// dependent request was acknowledged (e.g. a statically configured EDS cluster is initialised before CDS)
	lateRoots   bool
	rootsQueued []string // root types still to be requested on this stream
}

func newXdsClient(name string, node *core.Node, delta bool, roots []string) *xdsClient {
	return &xdsClient{name: name, node: node, delta: delta, roots: roots, sub: map[string]*subState{}, nackNext: map[string]bool{}, deriveDeps: true}
}

func isWildcardType(t string) bool {
	switch t {
	case v3.EndpointType, v3.RouteType, v3.SecretType, v3.ExtensionConfigurationType:
		return false
	}
	return true
}

func (c *xdsClient) state(t string) *subState {
	s := c.sub[t]
	if s == nil {
		s = &subState{typeURL: t, wildcard: isWildcardType(t), names: map[string]struct{}{}, held: map[string]heldRes{}}
		c.sub[t] = s
	}
	return s
}

func sortedNames(m map[string]struct{}) []string {
	out := make([]string, 0, len(m))
	for k := range m {
		out = append(out, k)
	}
	sort.Strings(out)
	return out
}

// resourceName extracts the xDS resource name from a SotW resource.
func resourceName(typeURL string, a *anypb.Any) string {
	switch typeURL {
	case v3.ClusterType:
		m := &cluster.Cluster{}
		if a.UnmarshalTo(m) == nil {
			return m.Name
		}
	case v3.EndpointType:
		m := &endpoint.ClusterLoadAssignment{}
		if a.UnmarshalTo(m) == nil {
			return m.ClusterName
		}
	case v3.ListenerType:
		m := &listener.Listener{}
		if a.UnmarshalTo(m) == nil {
			return m.Name
		}
	case v3.RouteType:
		m := &route.RouteConfiguration{}
		if a.UnmarshalTo(m) == nil {
			return m.Name
		}
	case v3.SecretType:
		m := &tls.Secret{}
		if a.UnmarshalTo(m) == nil {
			return m.Name
		}
	case v3.ExtensionConfigurationType:
		m := &core.TypedExtensionConfig{}
		if a.UnmarshalTo(m) == nil {
			return m.Name
		}
	case v3.NameTableType:
		return "" // the single NDS resource is unnamed (delta sends it with an empty name)
	}
	return fmt.Sprintf("?%s/%d", a.TypeUrl, len(a.Value))
}

func edsNamesFromClusters(held map[string]heldRes) map[string]struct{} {
	out := map[string]struct{}{}
	for _, h := range held {
		m := &cluster.Cluster{}
		if proto.Unmarshal(h.bytes, m) != nil {
			continue
		}
		if m.GetType() != cluster.Cluster_EDS {
			continue
		}
		n := m.GetEdsClusterConfig().GetServiceName()
		if n == "" {
			n = m.Name
		}
		out[n] = struct{}{}
	}
	return out
}

// ecdsNamesFromListeners: names of the extension configurations the listeners refer to by config discovery
// (network filters, HTTP filters of connection managers, listener filters).
func ecdsNamesFromListeners(held map[string]heldRes) map[string]struct{} {
	out := map[string]struct{}{}
	visit := func(fc *listener.FilterChain) {
		if fc == nil {
			return
		}
		for _, f := range fc.Filters {
			if f.GetConfigDiscovery() != nil {
				out[f.Name] = struct{}{}
			}
			tc := f.GetTypedConfig()
			if tc == nil || !strings.HasSuffix(tc.TypeUrl, "HttpConnectionManager") {
				continue
			}
			h := &hcm.HttpConnectionManager{}
			if tc.UnmarshalTo(h) != nil {
				continue
			}
			for _, hf := range h.HttpFilters {
				if hf.GetConfigDiscovery() != nil {
					out[hf.Name] = struct{}{}
				}
			}
		}
	}
	for _, hr := range held {
		l := &listener.Listener{}
		if proto.Unmarshal(hr.bytes, l) != nil {
			continue
		}
		for _, lf := range l.ListenerFilters {
			if lf.GetConfigDiscovery() != nil {
				out[lf.Name] = struct{}{}
			}
		}
		for _, fc := range l.FilterChains {
			visit(fc)
		}
		visit(l.DefaultFilterChain)
	}
	return out
}

func rdsNamesFromListeners(held map[string]heldRes) map[string]struct{} {
	out := map[string]struct{}{}
	visit := func(fc *listener.FilterChain) {
		if fc == nil {
			return
		}
		for _, f := range fc.Filters {
			tc := f.GetTypedConfig()
			if tc == nil || !strings.HasSuffix(tc.TypeUrl, "HttpConnectionManager") {
				continue
			}
			h := &hcm.HttpConnectionManager{}
			if tc.UnmarshalTo(h) != nil {
				continue
			}
			if r := h.GetRds(); r != nil {
				out[r.RouteConfigName] = struct{}{}
			}
		}
	}
	for _, hr := range held {
		l := &listener.Listener{}
		if proto.Unmarshal(hr.bytes, l) != nil {
			continue
		}
		for _, fc := range l.FilterChains {
			visit(fc)
		}
		visit(l.DefaultFilterChain)
	}
	return out
}

func sameSet(a, b map[string]struct{}) bool {
	if len(a) != len(b) {
		return false
	}
	for k := range a {
		if _, ok := b[k]; !ok {
			return false
		}
	}
	return true
}

// ---- SotW ---------------------------------------------------------------------------------------

func (c *xdsClient) sotwRequest(t string) *discovery.DiscoveryRequest {
	s := c.state(t)
	req := &discovery.DiscoveryRequest{TypeUrl: t, VersionInfo: s.version, ResponseNonce: s.nonce}
	if !s.wildcard {
		req.ResourceNames = sortedNames(s.names)
	}
	s.requested = true
	s.lastReq = req.ResourceNames
	return req
}

func (c *xdsClient) enqueue(m proto.Message) { c.outq = append(c.outq, m) }

// startLateRoots queues the root requests that were held back (lateRoots), after an acknowledgement.
func (c *xdsClient) startLateRoots() {
	for _, t := range c.rootsQueued {
		if c.delta {
			c.enqueue(c.deltaInitial(t))
		} else {
			c.enqueue(c.sotwRequest(t))
		}
	}
	c.rootsQueued = nil
}

// startStream queues what the client sends on a new stream: a request per root type, and (reconnect)
// per dependent type it still has names for, carrying the retained version, nonce and names.
func (c *xdsClient) markAnswered(t string, names ...string) {
	if c.answered[t] == nil {
		c.answered[t] = map[string]struct{}{}
	}
	for _, n := range names {
		c.answered[t][n] = struct{}{}
	}
}

// unanswered returns the names of non-wildcard subscriptions requested on this stream that were never answered.
func (c *xdsClient) unanswered() []string {
	var out []string
	for t, s := range c.sub {
		// extension configurations: istio sends nothing for a name that does not (or no longer) exist, and a
		// listener the client still holds may refer to one, so no answer can be demanded per name
		if s.wildcard || !s.requested || s.rejected || t == v3.ExtensionConfigurationType {
			// after a rejection the property makes no claim about the subscription record (a NACK's
			// resource names are not processed), so no answer is demanded until the next accepted response
			continue
		}
		for n := range s.names {
			if _, ok := c.answered[t][n]; !ok {
				out = append(out, shortType(t)+"/"+n)
			}
		}
	}
	sort.Strings(out)
	return out
}

func (c *xdsClient) startStream(permuteDeps bool) {
	c.outq = nil
	c.nodeSent = false
	c.answered = map[string]map[string]struct{}{}
	for _, s := range c.sub {
		s.requested = false
		s.rejected = false
	}
	c.permuted, c.cdsSeen, c.warmPending = permuteDeps, false, false
	order := append([]string(nil), c.roots...)
	deps := []string{}
	for _, t := range []string{v3.EndpointType, v3.RouteType, v3.ExtensionConfigurationType} {
		if s := c.sub[t]; s != nil && len(s.names) > 0 {
			deps = append(deps, t)
		}
	}
	c.rootsQueued = nil
	if permuteDeps && c.lateRoots && contains(deps, v3.EndpointType) { // endpoint requests are always answered
		c.rootsQueued = order
		order = deps
	} else if permuteDeps {
		order = append(deps, order...) // e.g. EDS before CDS
	} else {
		// Envoy order: CDS, EDS, LDS, RDS
		var o []string
		for _, t := range order {
			o = append(o, t)
			if t == v3.ClusterType && contains(deps, v3.EndpointType) {
				o = append(o, v3.EndpointType)
			}
			if t == v3.ListenerType && contains(deps, v3.RouteType) {
				o = append(o, v3.RouteType)
			}
			if t == v3.ListenerType && contains(deps, v3.ExtensionConfigurationType) {
				o = append(o, v3.ExtensionConfigurationType)
			}
		}
		order = o
	}
	for _, t := range order {
		if c.delta {
			c.enqueue(c.deltaInitial(t))
		} else {
			c.enqueue(c.sotwRequest(t))
		}
	}
}

func contains(l []string, s string) bool {
	for _, x := range l {
		if x == s {
			return true
		}
	}
	return false
}

// nextRequest pops the next queued request, adding the node to the first one of a stream.
func (c *xdsClient) nextRequest() proto.Message {
	m := c.outq[0]
	c.outq = c.outq[1:]
	switch r := m.(type) {
	case *discovery.DiscoveryRequest:
		c.sentLog = append(c.sentLog, fmt.Sprintf("%s v=%.19s nonce=%.8s names=%v err=%v", shortType(r.TypeUrl), r.VersionInfo, r.ResponseNonce, r.ResourceNames, r.ErrorDetail != nil))
	case *discovery.DeltaDiscoveryRequest:
		c.sentLog = append(c.sentLog, fmt.Sprintf("%s nonce=%.8s sub=%v unsub=%v init=%d err=%v", shortType(r.TypeUrl), r.ResponseNonce, r.ResourceNamesSubscribe, r.ResourceNamesUnsubscribe, len(r.InitialResourceVersions), r.ErrorDetail != nil))
	}
	if len(c.sentLog) > 40 {
		c.sentLog = c.sentLog[len(c.sentLog)-40:]
	}
	if !c.nodeSent {
		c.nodeSent = true
		switch r := m.(type) {
		case *discovery.DiscoveryRequest:
			r.Node = c.node
		case *discovery.DeltaDiscoveryRequest:
			r.Node = c.node
		}
	}
	return m
}

func (c *xdsClient) onSotwResponse(step int, resp *discovery.DiscoveryResponse) {
	t := resp.TypeUrl
	s := c.state(t)
	s.responses++
	s.nonce = resp.Nonce
	ev := recvEvent{step: step, typeURL: t, nonce: resp.Nonce, version: resp.VersionInfo}
	type nr struct {
		name  string
		bytes []byte
	}
	var rs []nr
	for _, a := range resp.Resources {
		n := resourceName(t, a)
		if os.Getenv("VERIF_DEBUG_RDS") != "" && t == v3.RouteType {
			fmt.Fprintf(os.Stderr, "debug-rds: %s step=%d version=%s route %s allow_any=%v block_all=%v at %s\n", c.name, step, resp.VersionInfo, n,
				strings.Contains(string(a.Value), "allow_any"), strings.Contains(string(a.Value), "block_all"), time.Now().Format("15:04:05.000"))
		}
		rs = append(rs, nr{n, a.Value})
		ev.names = append(ev.names, n)
		c.markAnswered(t, n)
	}
	if c.nackNext[t] {
		delete(c.nackNext, t)
		s.rejected = true
		c.recvLog = append(c.recvLog, ev)
		req := c.sotwRequest(t)
		req.ErrorDetail = &status.Status{Code: 3, Message: "simulated rejection"}
		c.enqueue(req)
		return
	}
	ev.accepted = true
	s.rejected = false
	c.recvLog = append(c.recvLog, ev)
	s.version = resp.VersionInfo
	if s.wildcard {
		s.held = map[string]heldRes{}
	}
	s.order = s.order[:0]
	for _, r := range rs {
		s.held[r.name] = heldRes{version: resp.VersionInfo, bytes: r.bytes}
		s.order = append(s.order, r.name)
	}
	c.enqueue(c.sotwRequest(t)) // ACK
	c.startLateRoots()
	if t == v3.EndpointType && c.cdsSeen {
		c.warmPending = false
	}
	if c.deriveDeps {
		switch t {
		case v3.ClusterType:
			first := !c.cdsSeen
			c.cdsSeen = true
			queued := len(c.outq)
			c.resubscribe(v3.EndpointType, edsNamesFromClusters(s.held))
			if es := c.state(v3.EndpointType); first && c.permuted && es.requested && es.nonce != "" && len(es.names) > 0 {
				if len(c.outq) == queued { // the name set did not change: the warming request repeats the acknowledged one
					c.enqueue(c.sotwRequest(v3.EndpointType))
				}
				c.warmPending = true
			}
		case v3.ListenerType:
			c.resubscribe(v3.RouteType, rdsNamesFromListeners(s.held))
			c.resubscribe(v3.ExtensionConfigurationType, ecdsNamesFromListeners(s.held))
		}
	}
}

// resubscribe changes the name set of a dependent type, dropping resources no longer referenced.
func (c *xdsClient) resubscribe(t string, names map[string]struct{}) {
	s := c.state(t)
	if sameSet(s.names, names) && (s.requested || len(names) == 0) {
		return
	}
	var added, removed []string
	for n := range names {
		if _, ok := s.names[n]; !ok {
			added = append(added, n)
		}
	}
	for n := range s.names {
		if _, ok := names[n]; !ok {
			removed = append(removed, n)
			delete(s.held, n)
		}
	}
	sort.Strings(added)
	sort.Strings(removed)
	wasRequested := s.requested
	s.names = names
	if c.delta {
		if !wasRequested {
			// first request of this type on the stream: subscribe to everything wanted
			added = sortedNames(names)
			removed = nil
		}
		if len(added) == 0 && len(removed) == 0 {
			return
		}
		s.requested = true
		s.lastReq = sortedNames(names)
		c.enqueue(&discovery.DeltaDiscoveryRequest{TypeUrl: t, ResourceNamesSubscribe: added, ResourceNamesUnsubscribe: removed})
		return
	}
	if len(names) == 0 && !wasRequested {
		return // never subscribed, nothing to cancel
	}
	c.enqueue(c.sotwRequest(t))
}

// ---- delta --------------------------------------------------------------------------------------

func (c *xdsClient) deltaInitial(t string) *discovery.DeltaDiscoveryRequest {
	s := c.state(t)
	req := &discovery.DeltaDiscoveryRequest{TypeUrl: t}
	if !s.wildcard {
		req.ResourceNamesSubscribe = sortedNames(s.names)
	}
	if len(s.held) > 0 {
		req.InitialResourceVersions = map[string]string{}
		for n, h := range s.held {
			req.InitialResourceVersions[n] = h.version
		}
	}
	if c.presentNonce {
		req.ResponseNonce = s.nonce
	}
	s.requested = true
	s.lastReq = sortedNames(s.names)
	return req
}

func (c *xdsClient) onDeltaResponse(step int, resp *discovery.DeltaDiscoveryResponse) {
	t := resp.TypeUrl
	s := c.state(t)
	s.responses++
	s.nonce = resp.Nonce
	ev := recvEvent{step: step, typeURL: t, nonce: resp.Nonce, version: resp.SystemVersionInfo, removed: append([]string(nil), resp.RemovedResources...)}
	for _, r := range resp.Resources {
		ev.names = append(ev.names, r.Name)
		c.markAnswered(t, r.Name)
	}
	c.markAnswered(t, resp.RemovedResources...)
	if c.nackNext[t] {
		delete(c.nackNext, t)
		s.rejected = true
		c.recvLog = append(c.recvLog, ev)
		c.enqueue(&discovery.DeltaDiscoveryRequest{TypeUrl: t, ResponseNonce: resp.Nonce, ErrorDetail: &status.Status{Code: 3, Message: "simulated rejection"}})
		return
	}
	ev.accepted = true
	s.rejected = false
	c.recvLog = append(c.recvLog, ev)
	for _, r := range resp.Resources {
		s.held[r.Name] = heldRes{version: r.Version, bytes: r.Resource.GetValue()}
	}
	for _, n := range resp.RemovedResources {
		delete(s.held, n)
	}
	c.enqueue(&discovery.DeltaDiscoveryRequest{TypeUrl: t, ResponseNonce: resp.Nonce})
	c.startLateRoots()
	if c.deriveDeps {
		switch t {
		case v3.ClusterType:
			c.resubscribe(v3.EndpointType, edsNamesFromClusters(s.held))
		case v3.ListenerType:
			c.resubscribe(v3.RouteType, rdsNamesFromListeners(s.held))
			c.resubscribe(v3.ExtensionConfigurationType, ecdsNamesFromListeners(s.held))
		}
	}
}

// heldView returns, per type, name -> bytes of what the client holds and still references.
func (c *xdsClient) heldView() map[string]map[string][]byte {
	out := map[string]map[string][]byte{}
	for t, s := range c.sub {
		m := map[string][]byte{}
		for n, h := range s.held {
			if !s.wildcard {
				if _, ok := s.names[n]; !ok {
					continue
				}
			}
			m[n] = h.bytes
		}
		out[t] = m
	}
	return out
}
