package worker

import (
	"fmt"
	"sort"
	"testing/synctest"
	"time"

	"google.golang.org/protobuf/types/known/structpb"
	"google.golang.org/protobuf/types/known/wrapperspb"

	extensions "istio.io/api/extensions/v1alpha1"
	networking "istio.io/api/networking/v1alpha3"
	networkingv1beta1 "istio.io/api/networking/v1beta1"
	security "istio.io/api/security/v1beta1"
	telemetry "istio.io/api/telemetry/v1alpha1"
	typev1beta1 "istio.io/api/type/v1beta1"
	"istio.io/istio/pkg/config"
	"istio.io/istio/pkg/config/schema/gvk"
	"verif/sim/engine"
)

// The workload universe is small on purpose: collisions are where the bugs are.

var (
	wlNamespaces = []string{"a", "b", "istio-system"}
	wlHosts      = []string{"a.example.com", "b.example.com", "c.example.com", "*.wild.example.com"}
	wlT0         = time.Date(2020, 1, 1, 0, 0, 0, 0, time.UTC)
)

type mutation struct {
	desc  string
	kind  string
	apply func(inst *wisInstance) error
}

// writeTick: no two writes share a clock reading. The in-memory config store stamps the resource version of an object
// with its clock, and a real API server never hands out one resource version twice; istio derives versions that
// enter cache keys from them (e.g. the aggregate PeerAuthentication version).
func writeTick() { time.Sleep(time.Microsecond) }

// ticking makes the first application of a mutation advance the clock (a mutation is applied to every replica of a run
// at one instant, as one write to the API server reaches all of them with one resource version). It also notices when a
// push snapshot is created at the very instant of the write: that snapshot may already contain the write without
// naming it (stores are updated before the change is debounced), the race behind known finding "pushrace"; such runs
// are tagged in the violation key.
func (wd *world) ticking(m mutation) mutation {
	done, f := false, m.apply
	m.apply = func(inst *wisInstance) error {
		if !done {
			done = true
			writeTick()
		}
		before, t0 := inst.fds.Env().PushContext().PushVersion, time.Now()
		err := f(inst)
		synctest.Wait()
		if time.Now().Equal(t0) && inst.fds.Env().PushContext().PushVersion != before {
			wd.raced = true
		}
		return err
	}
	return m
}

// world tracks which objects exist so that create/update/delete are chosen sensibly.
type world struct {
	// collide: which hostname collisions between ServiceEntries the generator may produce.
	// 0 = every host is declared by at most one ServiceEntry; 1 = the same host may be declared in different
	// namespaces; 2 = also by several ServiceEntries of one namespace. Violations are tagged with the
	// collision classes present (known findings are keyed on them).
	collide int
	hot     string // the run's "hot" host: generators pick it half of the time so that several objects meet on one host
	worst   int    // worst collision class that ever existed during the history (0 unique, 1 duphost, 2 dupns)
	exists  map[string]config.Config
	kinds   []string // enabled kinds for this run
	seq     int
	kube    *kubeWorld
	// recipe: a short scripted sequence of mutations aimed at one mechanism of the properties (rule precedence
	// switch, export flip, mTLS flip); instantiated now and then between the random mutations
	recipe []func(tp *engine.Tape) mutation
	// meshOn: this run's history includes mesh configuration reloads (a forced global push each); mesh = current variant
	meshOn bool
	mesh   int
	// als: the mesh's access-log-service extension provider "als" points at host als.example.com. 0 = the run never
	// uses it; 1 = it is used and its backing ServiceEntry is visible to every proxy whenever it exists (exported to
	// "*", imported by every Sidecar); 2 = visibility is unrestricted, runs are tagged "+alshidden" (known finding:
	// the provider's service is resolved mesh-wide, a proxy that cannot see it is not re-pushed when it appears).
	als int
	// raced: a push snapshot was created at the instant of a write (see ticking)
	raced bool
}

const alsHost = "als.example.com"

var allConfigKinds = []string{
	"ServiceEntry", "DestinationRule", "VirtualService", "Sidecar", "PeerAuthentication", "AuthorizationPolicy",
	"RequestAuthentication", "Telemetry", "EnvoyFilter", "Gateway", "WorkloadEntry", "WasmPlugin", "ProxyConfig",
}

func newWorld(tp *engine.Tape, kinds []string) *world {
	wd := &world{exists: map[string]config.Config{}}
	switch c := tp.Choose(20, "collide"); {
	case c < 14:
		wd.collide = 0
	case c < 18:
		wd.collide = 1
	default:
		wd.collide = 2
	}
	wd.hot = wlHosts[tp.Choose(3, "hotHost")]
	if kinds == nil {
		// swarm: ServiceEntry always, a random subset of the rest
		wd.kinds = []string{"ServiceEntry"}
		for _, k := range allConfigKinds[1:] {
			if tp.Bool(1, 2, "kind:"+k) {
				wd.kinds = append(wd.kinds, k)
			}
		}
		wd.meshOn = tp.Bool(1, 2, "meshOn")
	} else {
		wd.kinds = kinds
	}
	if contains(wd.kinds, "Telemetry") {
		wd.als = []int{0, 1, 1, 2}[tp.Choose(4, "als")]
	}
	return wd
}

func cfgKey(c config.Config) string {
	return c.GroupVersionKind.Kind + "/" + c.Namespace + "/" + c.Name
}

func pickNS(tp *engine.Tape, opts ...string) string {
	if len(opts) == 0 {
		opts = wlNamespaces
	}
	return opts[tp.Choose(len(opts), "ns")]
}

func pickHost(tp *engine.Tape) string { return wlHosts[tp.Choose(len(wlHosts), "host")] }

// pickHostHot prefers the run's hot host.
func (wd *world) pickHostHot(tp *engine.Tape) string {
	if wd.hot != "" && tp.Bool(1, 2, "useHot") {
		return wd.hot
	}
	return pickHost(tp)
}

func pickExportTo(tp *engine.Tape) []string {
	switch tp.Choose(6, "exportTo") {
	case 1:
		return []string{"."}
	case 2:
		return []string{"*"}
	case 3:
		return []string{"a"}
	case 4:
		return []string{"b", "istio-system"}
	}
	return nil
}

func pickSelector(tp *engine.Tape) *typev1beta1.WorkloadSelector {
	switch tp.Choose(3, "selector") {
	case 1:
		return &typev1beta1.WorkloadSelector{MatchLabels: map[string]string{"app": "foo"}}
	case 2:
		return &typev1beta1.WorkloadSelector{MatchLabels: map[string]string{"app": "bar"}}
	}
	return nil
}

// hostAllowed reports whether ServiceEntry ns/name may declare host h under the run's collision stratum.
func (wd *world) hostAllowed(h, ns, name string) bool {
	if wd.collide >= 2 {
		return true
	}
	for k, c := range wd.exists {
		if c.GroupVersionKind.Kind != "ServiceEntry" || k == "ServiceEntry/"+ns+"/"+name {
			continue
		}
		for _, x := range c.Spec.(*networking.ServiceEntry).Hosts {
			if x == h && (wd.collide == 0 || c.Namespace == ns) {
				return false
			}
		}
	}
	return true
}

// collisionTags names the hostname-collision classes present among the existing ServiceEntries.
func (wd *world) collisionTags() string {
	byHost := map[string][]string{}
	for _, k := range wd.existingKeys() {
		c := wd.exists[k]
		if c.GroupVersionKind.Kind != "ServiceEntry" {
			continue
		}
		for _, h := range c.Spec.(*networking.ServiceEntry).Hosts {
			byHost[h] = append(byHost[h], c.Namespace)
		}
	}
	dupns, duphost := false, false
	for _, nss := range byHost {
		seen := map[string]bool{}
		for _, n := range nss {
			if seen[n] {
				dupns = true
			}
			seen[n] = true
		}
		if len(seen) > 1 {
			duphost = true
		}
	}
	switch {
	case dupns:
		return "dupns"
	case duphost:
		return "duphost"
	}
	return "unique"
}

func (wd *world) genSpec(tp *engine.Tape, kind, ns, name string) config.Spec {
	switch kind {
	case "ServiceEntry":
		se := &networking.ServiceEntry{}
		h := wd.pickHostHot(tp)
		if !wd.hostAllowed(h, ns, name) {
			h = name + ".uniq.example.com"
		}
		se.Hosts = []string{h}
		if tp.Bool(1, 5, "twohosts") {
			if h2 := pickHost(tp); h2 != h && wd.hostAllowed(h2, ns, name) {
				se.Hosts = append(se.Hosts, h2)
			}
		}
		wild := false
		for _, x := range se.Hosts {
			if x[0] == '*' {
				wild = true
			}
		}
		ports := []*networking.ServicePort{
			{Number: 80, Name: "http", Protocol: "HTTP"},
			{Number: 81, Name: "http-alt", Protocol: "HTTP"},
			{Number: 9090, Name: "tcp", Protocol: "TCP"},
			{Number: 443, Name: "tls", Protocol: "TLS"},
		}
		mask := 1 + tp.Choose(15, "ports")
		for i, p := range ports {
			if mask&(1<<i) != 0 {
				se.Ports = append(se.Ports, p)
			}
		}
		se.Location = networking.ServiceEntry_Location(tp.Choose(2, "location"))
		switch r := tp.Choose(4, "resolution"); {
		case wild || r == 0:
			se.Resolution = networking.ServiceEntry_NONE
		case r == 1:
			se.Resolution = networking.ServiceEntry_DNS
		default:
			se.Resolution = networking.ServiceEntry_STATIC
		}
		if se.Resolution == networking.ServiceEntry_STATIC {
			if tp.Bool(1, 6, "wlselector") {
				se.WorkloadSelector = &networking.WorkloadSelector{Labels: map[string]string{"app": "we"}}
			} else {
				n := tp.Choose(4, "neps")
				for i := 0; i < n; i++ {
					we := &networking.WorkloadEntry{
						Address: fmt.Sprintf("10.1.%d.%d", tp.Choose(2, "epnet"), 1+tp.Choose(4, "epaddr")),
						Labels:  map[string]string{"version": []string{"v1", "v2"}[tp.Choose(2, "epver")]},
					}
					if tp.Bool(1, 3, "eploc") {
						we.Locality = []string{"region1/zone1", "region2/zone2"}[tp.Choose(2, "loc")]
					}
					if tp.Bool(1, 3, "epsa") {
						we.ServiceAccount = []string{"sa1", "sa2"}[tp.Choose(2, "sa")]
					}
					if tp.Bool(1, 4, "epweight") {
						we.Weight = uint32(1 + tp.Choose(3, "w"))
					}
					dup := false
					for _, e := range se.Endpoints {
						if e.Address == we.Address {
							dup = true
						}
					}
					if !dup {
						se.Endpoints = append(se.Endpoints, we)
					}
				}
			}
		}
		if !wild && tp.Bool(1, 3, "vip") {
			se.Addresses = []string{fmt.Sprintf("240.240.0.%d", 1+tp.Choose(3, "vipaddr"))}
		}
		se.ExportTo = pickExportTo(tp)
		return se
	case "DestinationRule":
		dr := &networking.DestinationRule{Host: wd.pickHostHot(tp), ExportTo: pickExportTo(tp)}
		switch tp.Choose(4, "subsets") {
		case 1:
			dr.Subsets = []*networking.Subset{{Name: "v1", Labels: map[string]string{"version": "v1"}}}
		case 2:
			dr.Subsets = []*networking.Subset{{Name: "v1", Labels: map[string]string{"version": "v1"}}, {Name: "v2", Labels: map[string]string{"version": "v2"}}}
		case 3:
			dr.Subsets = []*networking.Subset{{Name: "v2", Labels: map[string]string{"version": "v2"},
				TrafficPolicy: &networking.TrafficPolicy{ConnectionPool: &networking.ConnectionPoolSettings{Tcp: &networking.ConnectionPoolSettings_TCPSettings{MaxConnections: 7}}}}}
		}
		if len(dr.Subsets) > 0 && tp.Bool(1, 4, "crossed") {
			// same subset name, other endpoints: changes endpoint content without changing any resource name
			dr.Subsets[0].Labels = map[string]string{"version": map[string]string{"v1": "v2", "v2": "v1"}[dr.Subsets[0].Name]}
		}
		switch tp.Choose(6, "tp") {
		case 5:
			// locality weighted distribution without outlier detection
			dr.TrafficPolicy = &networking.TrafficPolicy{LoadBalancer: &networking.LoadBalancerSettings{LocalityLbSetting: &networking.LocalityLoadBalancerSetting{
				Distribute: []*networking.LocalityLoadBalancerSetting_Distribute{
					{From: "region1/*", To: map[string]uint32{"region1/*": 80, "region2/*": 20}},
					{From: "region2/*", To: map[string]uint32{"region2/*": 100}},
				},
			}}}
		case 1:
			dr.TrafficPolicy = &networking.TrafficPolicy{Tls: &networking.ClientTLSSettings{Mode: networking.ClientTLSSettings_ISTIO_MUTUAL}}
		case 2:
			dr.TrafficPolicy = &networking.TrafficPolicy{Tls: &networking.ClientTLSSettings{Mode: networking.ClientTLSSettings_DISABLE}}
		case 3:
			dr.TrafficPolicy = &networking.TrafficPolicy{LoadBalancer: &networking.LoadBalancerSettings{LbPolicy: &networking.LoadBalancerSettings_Simple{Simple: networking.LoadBalancerSettings_LEAST_REQUEST}}}
		case 4:
			dr.TrafficPolicy = &networking.TrafficPolicy{
				OutlierDetection: &networking.OutlierDetection{Consecutive_5XxErrors: wrapperspb.UInt32(3)},
				LoadBalancer: &networking.LoadBalancerSettings{LocalityLbSetting: &networking.LocalityLoadBalancerSetting{
					Failover: []*networking.LocalityLoadBalancerSetting_Failover{{From: "region1", To: "region2"}},
				}},
			}
		}
		if tp.Bool(1, 6, "drselector") {
			dr.WorkloadSelector = &typev1beta1.WorkloadSelector{MatchLabels: map[string]string{"app": "foo"}}
		}
		return dr
	case "VirtualService":
		vs := &networking.VirtualService{Hosts: []string{wd.pickHostHot(tp)}, ExportTo: pickExportTo(tp)}
		switch tp.Choose(4, "gateways") {
		case 1:
			vs.Gateways = []string{"mesh"}
		case 2:
			vs.Gateways = []string{"istio-system/gw"}
		case 3:
			vs.Gateways = []string{"mesh", "istio-system/gw"}
		}
		dest := &networking.Destination{Host: wlHosts[tp.Choose(3, "desthost")]}
		if tp.Bool(1, 3, "destsubset") {
			dest.Subset = []string{"v1", "v2"}[tp.Choose(2, "subset")]
		}
		if tp.Bool(1, 2, "destport") {
			dest.Port = &networking.PortSelector{Number: []uint32{80, 81}[tp.Choose(2, "dport")]}
		}
		r := &networking.HTTPRoute{Route: []*networking.HTTPRouteDestination{{Destination: dest}}}
		if tp.Bool(1, 2, "match") {
			r.Match = []*networking.HTTPMatchRequest{{Uri: &networking.StringMatch{MatchType: &networking.StringMatch_Prefix{Prefix: "/p" + fmt.Sprint(tp.Choose(3, "pfx"))}}}}
		}
		if len(r.Match) > 0 && tp.Bool(1, 3, "richmatch") {
			// map-typed match fields with several entries: their order in the generated route must not depend on
			// map iteration
			ex := func(v string) *networking.StringMatch {
				return &networking.StringMatch{MatchType: &networking.StringMatch_Exact{Exact: v}}
			}
			m := r.Match[0]
			m.Headers = map[string]*networking.StringMatch{"x-a": ex("1"), "x-b": ex("2"), "x-c": ex("3")}
			m.WithoutHeaders = map[string]*networking.StringMatch{"x-d": ex("4"), "x-e": ex("5"), "x-f": ex("6")}
			m.QueryParams = map[string]*networking.StringMatch{"q1": ex("1"), "q2": ex("2"), "q3": ex("3")}
		}
		vs.Http = []*networking.HTTPRoute{r}
		if tp.Bool(1, 4, "tcproute") {
			vs.Tcp = []*networking.TCPRoute{{Route: []*networking.RouteDestination{{Destination: &networking.Destination{Host: wlHosts[tp.Choose(3, "tcpdest")], Port: &networking.PortSelector{Number: 9090}}}}}}
		}
		return vs
	case "Sidecar":
		sc := &networking.Sidecar{}
		if name != "default" {
			sc.WorkloadSelector = &networking.WorkloadSelector{Labels: map[string]string{"app": "foo"}}
		}
		opts := []string{"./*", "*/*", "b/*", "*/a.example.com", "istio-system/*", "a/b.example.com", "~/*"}
		n := 1 + tp.Choose(2, "nhosts")
		eg := &networking.IstioEgressListener{}
		for i := 0; i < n; i++ {
			h := opts[tp.Choose(len(opts), "egress")]
			if h == "~/*" && n > 1 {
				continue
			}
			if !contains(eg.Hosts, h) {
				eg.Hosts = append(eg.Hosts, h)
			}
		}
		if len(eg.Hosts) == 0 {
			eg.Hosts = []string{"./*"}
		}
		if wd.als == 1 { // every Sidecar imports the access-log service
			if eg.Hosts[0] == "~/*" {
				eg.Hosts = []string{"./*"}
			}
			if !contains(eg.Hosts, "*/*") {
				eg.Hosts = append(eg.Hosts, "*/"+alsHost)
			}
		}
		sc.Egress = []*networking.IstioEgressListener{eg}
		if tp.Bool(1, 4, "portlistener") {
			sc.Egress = append(sc.Egress, &networking.IstioEgressListener{
				Port:  &networking.SidecarPort{Number: 81, Protocol: "HTTP", Name: "http-alt"},
				Hosts: []string{"*/b.example.com"},
			})
		}
		if tp.Bool(1, 4, "otp") {
			sc.OutboundTrafficPolicy = &networking.OutboundTrafficPolicy{Mode: networking.OutboundTrafficPolicy_REGISTRY_ONLY}
		}
		return sc
	case "PeerAuthentication":
		pa := &security.PeerAuthentication{Mtls: &security.PeerAuthentication_MutualTLS{Mode: security.PeerAuthentication_MutualTLS_Mode(tp.Choose(4, "mode"))}}
		if name != "default" {
			pa.Selector = &typev1beta1.WorkloadSelector{MatchLabels: map[string]string{"app": []string{"foo", "bar"}[tp.Choose(2, "sel")]}}
			if tp.Bool(1, 2, "portlevel") {
				pa.PortLevelMtls = map[uint32]*security.PeerAuthentication_MutualTLS{8080: {Mode: security.PeerAuthentication_MutualTLS_Mode(tp.Choose(4, "pmode"))}}
			}
		}
		return pa
	case "AuthorizationPolicy":
		ap := &security.AuthorizationPolicy{Selector: pickSelector(tp), Action: security.AuthorizationPolicy_Action(tp.Choose(2, "action"))}
		rule := &security.Rule{}
		if tp.Bool(1, 2, "from") {
			rule.From = []*security.Rule_From{{Source: &security.Source{Principals: []string{"cluster.local/ns/a/sa/sa" + fmt.Sprint(1+tp.Choose(2, "p"))}}}}
		}
		if tp.Bool(1, 2, "to") {
			rule.To = []*security.Rule_To{{Operation: &security.Operation{Paths: []string{"/x" + fmt.Sprint(tp.Choose(3, "path"))}}}}
		}
		ap.Rules = []*security.Rule{rule}
		return ap
	case "RequestAuthentication":
		return &security.RequestAuthentication{Selector: pickSelector(tp), JwtRules: []*security.JWTRule{{
			Issuer: "issuer-" + fmt.Sprint(tp.Choose(2, "iss")),
			Jwks:   wlJwks,
		}}}
	case "Telemetry":
		tl := &telemetry.Telemetry{Selector: pickSelector(tp)}
		tl.AccessLogging = []*telemetry.AccessLogging{{
			Providers: []*telemetry.ProviderRef{{Name: []string{"envoy", "als"}[min(wd.als, 1)*tp.Choose(2, "provider")]}},
			Disabled:  wrapperspb.Bool(tp.Bool(1, 2, "disabled")),
		}}
		return tl
	case "EnvoyFilter":
		ef := &networking.EnvoyFilter{}
		if tp.Bool(1, 2, "efselector") {
			ef.WorkloadSelector = &networking.WorkloadSelector{Labels: map[string]string{"app": "foo"}}
		}
		if tp.Bool(1, 2, "clusterpatch") {
			v, _ := structpb.NewStruct(map[string]any{"connect_timeout": fmt.Sprintf("%ds", 3+tp.Choose(3, "ct"))})
			ef.ConfigPatches = []*networking.EnvoyFilter_EnvoyConfigObjectPatch{{
				ApplyTo: networking.EnvoyFilter_CLUSTER,
				Match:   &networking.EnvoyFilter_EnvoyConfigObjectMatch{Context: networking.EnvoyFilter_SIDECAR_OUTBOUND},
				Patch:   &networking.EnvoyFilter_Patch{Operation: networking.EnvoyFilter_Patch_MERGE, Value: v},
			}}
		} else {
			v, _ := structpb.NewStruct(map[string]any{"per_connection_buffer_limit_bytes": float64(1000 + tp.Choose(3, "buf"))})
			ef.ConfigPatches = []*networking.EnvoyFilter_EnvoyConfigObjectPatch{{
				ApplyTo: networking.EnvoyFilter_LISTENER,
				Match:   &networking.EnvoyFilter_EnvoyConfigObjectMatch{Context: networking.EnvoyFilter_ANY},
				Patch:   &networking.EnvoyFilter_Patch{Operation: networking.EnvoyFilter_Patch_MERGE, Value: v},
			}}
		}
		return ef
	case "Gateway":
		hosts := []string{"*.example.com", "a.example.com", "a/*", "*"}
		return &networking.Gateway{
			Selector: map[string]string{"istio": "ingressgateway"},
			Servers: []*networking.Server{{
				Port:  &networking.Port{Number: []uint32{80, 8080}[tp.Choose(2, "gwport")], Name: "http", Protocol: "HTTP"},
				Hosts: []string{hosts[tp.Choose(len(hosts), "gwhost")]},
			}},
		}
	case "WorkloadEntry":
		we := &networking.WorkloadEntry{
			Address: fmt.Sprintf("10.2.0.%d", 1+tp.Choose(3, "weaddr")),
			Labels:  map[string]string{"app": "we", "version": []string{"v1", "v2"}[tp.Choose(2, "wever")]},
		}
		if tp.Bool(1, 2, "wesa") {
			we.ServiceAccount = []string{"sa1", "sa2"}[tp.Choose(2, "sa")]
		}
		if tp.Bool(1, 3, "weloc") {
			we.Locality = []string{"region1/zone1", "region2/zone2"}[tp.Choose(2, "loc")]
		}
		return we
	case "WasmPlugin":
		return &extensions.WasmPlugin{
			Selector: pickSelector(tp),
			Url:      "oci://example.com/plugin:v" + fmt.Sprint(tp.Choose(2, "wasmver")),
			Phase:    extensions.PluginPhase(tp.Choose(4, "phase")),
		}
	case "ProxyConfig":
		return &networkingv1beta1.ProxyConfig{
			Selector:    pickSelector(tp),
			Concurrency: wrapperspb.Int32(int32(1 + tp.Choose(3, "conc"))),
		}
	}
	panic("unknown kind " + kind)
}

var kindGVK = map[string]config.GroupVersionKind{
	"ServiceEntry": gvk.ServiceEntry, "DestinationRule": gvk.DestinationRule, "VirtualService": gvk.VirtualService,
	"Sidecar": gvk.Sidecar, "PeerAuthentication": gvk.PeerAuthentication, "AuthorizationPolicy": gvk.AuthorizationPolicy,
	"RequestAuthentication": gvk.RequestAuthentication, "Telemetry": gvk.Telemetry, "EnvoyFilter": gvk.EnvoyFilter,
	"Gateway": gvk.Gateway, "WorkloadEntry": gvk.WorkloadEntry, "WasmPlugin": gvk.WasmPlugin, "ProxyConfig": gvk.ProxyConfig,
}

// names available per kind (namespace, name): few, so updates and deletes hit existing objects.
func kindSlots(kind string) [][2]string {
	switch kind {
	case "ServiceEntry":
		return [][2]string{{"a", "se1"}, {"a", "se2"}, {"b", "se3"}, {"istio-system", "se4"}, {"b", "se1"}}
	case "DestinationRule":
		return [][2]string{{"a", "dr1"}, {"b", "dr2"}, {"istio-system", "dr3"}, {"b", "dr1"}}
	case "VirtualService":
		return [][2]string{{"a", "vs1"}, {"b", "vs2"}, {"istio-system", "vs3"}, {"b", "vs1"}, {"istio-system", "vs1"}}
	case "Sidecar":
		return [][2]string{{"a", "default"}, {"a", "sc-foo"}, {"b", "default"}, {"istio-system", "default"}}
	case "PeerAuthentication":
		return [][2]string{{"istio-system", "default"}, {"a", "default"}, {"a", "pa-sel"}, {"b", "pa-sel"}}
	case "AuthorizationPolicy":
		return [][2]string{{"a", "ap1"}, {"b", "ap2"}, {"istio-system", "ap3"}}
	case "RequestAuthentication":
		return [][2]string{{"a", "ra1"}, {"istio-system", "ra2"}}
	case "Telemetry":
		return [][2]string{{"istio-system", "mesh-default"}, {"a", "tl1"}, {"b", "tl2"}}
	case "EnvoyFilter":
		return [][2]string{{"istio-system", "ef-root"}, {"a", "ef1"}}
	case "Gateway":
		return [][2]string{{"istio-system", "gw"}, {"a", "gw2"}, {"a", "gw"}}
	case "WorkloadEntry":
		return [][2]string{{"a", "we1"}, {"a", "we2"}, {"b", "we3"}}
	case "WasmPlugin":
		return [][2]string{{"istio-system", "wasm-root"}, {"a", "wasm1"}}
	case "ProxyConfig":
		return [][2]string{{"istio-system", "pc-root"}, {"a", "pc1"}}
	}
	return nil
}

// next draws one config mutation.
// everTags names the worst hostname-collision class that existed at any point of the history so far.
func (wd *world) everTags() string {
	cur := map[string]int{"unique": 0, "duphost": 1, "dupns": 2}[wd.collisionTags()]
	if cur > wd.worst {
		wd.worst = cur
	}
	t := []string{"unique", "duphost", "dupns"}[wd.worst]
	if wd.als == 2 {
		t += "+alshidden"
	}
	if wd.raced {
		t += "+pushrace"
	}
	return t
}

// put creates or updates one object through the ordinary bookkeeping.
func (wd *world) put(kind, ns, name string, spec config.Spec, ctime int) mutation {
	g := kindGVK[kind]
	key := kind + "/" + ns + "/" + name
	if cur, ok := wd.exists[key]; ok {
		nc := cur.DeepCopy()
		nc.Spec = spec
		nc.ResourceVersion = ""
		wd.exists[key] = nc
		return mutation{kind: kind, desc: fmt.Sprintf("update %s %v", key, compactSpec(spec)), apply: func(inst *wisInstance) error {
			_, err := inst.fds.Store().Update(nc.DeepCopy())
			return err
		}}
	}
	c := config.Config{Meta: config.Meta{GroupVersionKind: g, Name: name, Namespace: ns, CreationTimestamp: wlT0.Add(time.Duration(ctime) * time.Second)}, Spec: spec}
	wd.exists[key] = c
	return mutation{kind: kind, desc: fmt.Sprintf("create %s %v", key, compactSpec(spec)), apply: func(inst *wisInstance) error {
		_, err := inst.fds.Store().Create(c.DeepCopy())
		return err
	}}
}

func (wd *world) del(kind, ns, name string) mutation {
	g := kindGVK[kind]
	key := kind + "/" + ns + "/" + name
	delete(wd.exists, key)
	return mutation{kind: kind, desc: "delete " + key, apply: func(inst *wisInstance) error {
		return inst.fds.Store().Delete(g, name, ns, nil)
	}}
}

// startRecipe queues a scripted sequence on the run's hot host.
func (wd *world) startRecipe(tp *engine.Tape) {
	h := wd.hot
	if h == "" || h[0] == '*' {
		h = "a.example.com"
	}
	// recipes run only in the "unique" stratum: the first step (always the ServiceEntry) settles the host so that
	// the recipe's slot does not meet another declaration of it, including one left behind by an earlier recipe
	settle := func(ns, name string) {
		for _, alt := range []string{"recipe.example.com", name + ".uniq.example.com"} {
			if wd.hostAllowed(h, ns, name) {
				return
			}
			h = alt
		}
	}
	lbs := []*networking.LoadBalancerSettings{
		{LbPolicy: &networking.LoadBalancerSettings_Simple{Simple: networking.LoadBalancerSettings_ROUND_ROBIN}},
		{LocalityLbSetting: &networking.LocalityLoadBalancerSetting{Distribute: []*networking.LocalityLoadBalancerSetting_Distribute{
			{From: "region1/*", To: map[string]uint32{"region1/*": 80, "region2/*": 20}}, {From: "region2/*", To: map[string]uint32{"region2/*": 100}}}}},
		{LocalityLbSetting: &networking.LocalityLoadBalancerSetting{Failover: []*networking.LocalityLoadBalancerSetting_Failover{{From: "region1", To: "region2"}}}},
	}
	se := func(exportTo []string) *networking.ServiceEntry {
		return &networking.ServiceEntry{Hosts: []string{h}, Ports: []*networking.ServicePort{{Number: 80, Name: "http", Protocol: "HTTP"}},
			Location: networking.ServiceEntry_MESH_INTERNAL, Resolution: networking.ServiceEntry_STATIC, ExportTo: exportTo,
			Endpoints: []*networking.WorkloadEntry{
				{Address: "10.1.7.1", Locality: "region1/zone1", Labels: map[string]string{"version": "v1"}},
				{Address: "10.1.7.2", Locality: "region2/zone2", Labels: map[string]string{"version": "v2"}}}}
	}
	switch tp.Choose(6, "recipe") {
	case 5: // two rules of one namespace for the same host are merged into one; the younger one is edited
		pool := func(n int32) *networking.DestinationRule {
			return &networking.DestinationRule{Host: h, Subsets: []*networking.Subset{{Name: "v1", Labels: map[string]string{"version": "v1"},
				TrafficPolicy: &networking.TrafficPolicy{ConnectionPool: &networking.ConnectionPoolSettings{Tcp: &networking.ConnectionPoolSettings_TCPSettings{MaxConnections: n}}}}}}
		}
		wd.recipe = []func(tp *engine.Tape) mutation{
			func(tp *engine.Tape) mutation {
				settle("b", "se3")
				return wd.put("ServiceEntry", "b", "se3", se([]string{"*"}), 0)
			},
			func(tp *engine.Tape) mutation {
				return wd.put("DestinationRule", "b", "dr1", &networking.DestinationRule{Host: h, TrafficPolicy: &networking.TrafficPolicy{LoadBalancer: lbs[0]}}, 0)
			},
			func(tp *engine.Tape) mutation { return wd.put("DestinationRule", "b", "dr2", pool(7), 1) },
			func(tp *engine.Tape) mutation { return wd.put("DestinationRule", "b", "dr2", pool(9), 1) },
			func(tp *engine.Tape) mutation { return wd.put("DestinationRule", "b", "dr2", pool(11), 1) },
		}
	case 3: // a service and the rule that gives it subsets go away together (one push when the gaps are short)
		wd.recipe = []func(tp *engine.Tape) mutation{
			func(tp *engine.Tape) mutation {
				settle("a", "se1")
				return wd.put("ServiceEntry", "a", "se1", se(nil), 0)
			},
			func(tp *engine.Tape) mutation {
				return wd.put("DestinationRule", "a", "dr1", &networking.DestinationRule{Host: h, Subsets: []*networking.Subset{
					{Name: "v1", Labels: map[string]string{"version": "v1"}}, {Name: "v2", Labels: map[string]string{"version": "v2"}}}}, 0)
			},
			func(tp *engine.Tape) mutation {
				if tp.Bool(1, 2, "ruleFirst") {
					return wd.del("DestinationRule", "a", "dr1")
				}
				return wd.del("ServiceEntry", "a", "se1")
			},
			func(tp *engine.Tape) mutation {
				if _, ok := wd.exists["DestinationRule/a/dr1"]; ok {
					return wd.del("DestinationRule", "a", "dr1")
				}
				return wd.del("ServiceEntry", "a", "se1")
			},
		}
	case 4: // a subset is pointed at other endpoints and back: endpoint content changes, no resource name does
		sub := func(v string) mutation {
			return wd.put("DestinationRule", "a", "dr1", &networking.DestinationRule{Host: h, Subsets: []*networking.Subset{{Name: "sub", Labels: map[string]string{"version": v}}}}, 0)
		}
		wd.recipe = []func(tp *engine.Tape) mutation{
			func(tp *engine.Tape) mutation {
				settle("a", "se1")
				return wd.put("ServiceEntry", "a", "se1", se(nil), 0)
			},
			func(tp *engine.Tape) mutation { return sub("v1") },
			func(tp *engine.Tape) mutation {
				return wd.put("VirtualService", "a", "vs1", &networking.VirtualService{Hosts: []string{h}, Http: []*networking.HTTPRoute{{Route: []*networking.HTTPRouteDestination{{Destination: &networking.Destination{Host: h, Subset: "sub"}}}}}}, 0)
			},
			func(tp *engine.Tape) mutation { return sub("v2") },
			func(tp *engine.Tape) mutation { return sub("v1") },
		}
	case 0: // rule precedence switch: a client-namespace rule overrides a root-namespace rule, then goes away / is retargeted
		lo, hi := tp.Choose(3, "lbLow"), tp.Choose(3, "lbHigh")
		od := &networking.OutlierDetection{Consecutive_5XxErrors: wrapperspb.UInt32(3)}
		wd.recipe = []func(tp *engine.Tape) mutation{
			func(tp *engine.Tape) mutation {
				settle("a", "se1")
				return wd.put("ServiceEntry", "a", "se1", se(nil), 0)
			},
			func(tp *engine.Tape) mutation {
				return wd.put("DestinationRule", "istio-system", "dr3", &networking.DestinationRule{Host: h, TrafficPolicy: &networking.TrafficPolicy{LoadBalancer: lbs[lo], OutlierDetection: od}}, 0)
			},
			func(tp *engine.Tape) mutation {
				return wd.put("DestinationRule", "a", "dr1", &networking.DestinationRule{Host: h, TrafficPolicy: &networking.TrafficPolicy{LoadBalancer: lbs[hi], OutlierDetection: od}}, 1)
			},
			func(tp *engine.Tape) mutation {
				if tp.Bool(1, 2, "retarget") {
					return wd.put("DestinationRule", "a", "dr1", &networking.DestinationRule{Host: "c.example.com"}, 1)
				}
				return wd.del("DestinationRule", "a", "dr1")
			},
		}
	case 1: // export flip: the service disappears from and returns to the other namespaces
		wd.recipe = []func(tp *engine.Tape) mutation{
			func(tp *engine.Tape) mutation {
				settle("b", "se3")
				return wd.put("ServiceEntry", "b", "se3", se([]string{"*"}), 0)
			},
			func(tp *engine.Tape) mutation {
				return wd.put("VirtualService", "a", "vs1", &networking.VirtualService{Hosts: []string{h}, Http: []*networking.HTTPRoute{{Route: []*networking.HTTPRouteDestination{{Destination: &networking.Destination{Host: h}}}}}}, 0)
			},
			func(tp *engine.Tape) mutation { return wd.put("ServiceEntry", "b", "se3", se([]string{"."}), 0) },
			func(tp *engine.Tape) mutation { return wd.put("ServiceEntry", "b", "se3", se([]string{"a"}), 0) },
		}
	case 2: // mTLS flip by PeerAuthentication at namespace level, with a subset rule in place
		wd.recipe = []func(tp *engine.Tape) mutation{
			func(tp *engine.Tape) mutation {
				settle("a", "se1")
				return wd.put("ServiceEntry", "a", "se1", se(nil), 0)
			},
			func(tp *engine.Tape) mutation {
				return wd.put("DestinationRule", "a", "dr1", &networking.DestinationRule{Host: h, Subsets: []*networking.Subset{{Name: "v1", Labels: map[string]string{"version": "v1"}}}}, 0)
			},
			func(tp *engine.Tape) mutation {
				return wd.put("PeerAuthentication", "a", "default", &security.PeerAuthentication{Mtls: &security.PeerAuthentication_MutualTLS{Mode: security.PeerAuthentication_MutualTLS_STRICT}}, 0)
			},
			func(tp *engine.Tape) mutation {
				return wd.put("PeerAuthentication", "a", "default", &security.PeerAuthentication{Mtls: &security.PeerAuthentication_MutualTLS{Mode: security.PeerAuthentication_MutualTLS_DISABLE}}, 0)
			},
			func(tp *engine.Tape) mutation { return wd.del("PeerAuthentication", "a", "default") },
		}
	}
}

func (wd *world) next(tp *engine.Tape) (m mutation) {
	defer func() { m = wd.ticking(m) }()
	defer wd.everTags()
	if len(wd.recipe) == 0 && wd.collide == 0 && tp.Bool(1, 6, "startRecipe") {
		wd.startRecipe(tp)
	}
	if len(wd.recipe) > 0 && tp.Bool(2, 3, "continueRecipe") {
		wd.seq++
		f := wd.recipe[0]
		wd.recipe = wd.recipe[1:]
		return f(tp)
	}
	wd.seq++
	if wd.kube != nil && tp.Bool(wd.kube.weight, 10, "kubemut") {
		return wd.kube.next(tp, wd.seq)
	}
	if wd.als > 0 && tp.Bool(1, 8, "alsmut") {
		if _, ok := wd.exists["ServiceEntry/istio-system/se-als"]; ok && tp.Bool(1, 3, "alsdel") {
			return wd.del("ServiceEntry", "istio-system", "se-als")
		}
		exp := []string{"*"}
		if wd.als == 2 {
			exp = pickExportTo(tp)
		}
		port := []uint32{80, 80, 8080}[tp.Choose(3, "alsport")] // the provider names port 80
		return wd.put("ServiceEntry", "istio-system", "se-als", &networking.ServiceEntry{Hosts: []string{alsHost}, ExportTo: exp,
			Ports:    []*networking.ServicePort{{Number: port, Name: "grpc", Protocol: "GRPC"}},
			Location: networking.ServiceEntry_MESH_INTERNAL, Resolution: networking.ServiceEntry_STATIC,
			Endpoints: []*networking.WorkloadEntry{{Address: "10.9.9.1"}}}, 0)
	}
	if wd.meshOn && tp.Bool(1, 10, "meshmut") {
		wd.mesh = (wd.mesh + 1 + tp.Choose(7, "meshvariant")) % 8
		v := wd.mesh
		return mutation{kind: "MeshConfig", desc: fmt.Sprintf("mesh configuration reload: variant %d (accessLogFile=%v registryOnly=%v connectTimeout3s=%v)", v, v&1 != 0, v&2 != 0, v&4 != 0),
			apply: func(inst *wisInstance) error {
				inst.setMesh(v)
				return nil
			}}
	}
	kind := wd.kinds[tp.Choose(len(wd.kinds), "kind")]
	slots := kindSlots(kind)
	slot := slots[tp.Choose(len(slots), "slot")]
	ns, name := slot[0], slot[1]
	g := kindGVK[kind]
	key := kind + "/" + ns + "/" + name
	cur, exists := wd.exists[key]
	if exists && tp.Bool(1, 3, "delete") {
		delete(wd.exists, key)
		return mutation{kind: kind, desc: "delete " + key, apply: func(inst *wisInstance) error {
			return inst.fds.Store().Delete(g, name, ns, nil)
		}}
	}
	spec := wd.genSpec(tp, kind, ns, name)
	if exists {
		nc := cur.DeepCopy()
		nc.Spec = spec
		nc.ResourceVersion = ""
		wd.exists[key] = nc
		return mutation{kind: kind, desc: fmt.Sprintf("update %s %v", key, compactSpec(spec)), apply: func(inst *wisInstance) error {
			_, err := inst.fds.Store().Update(nc.DeepCopy())
			return err
		}}
	}
	c := config.Config{
		Meta: config.Meta{
			GroupVersionKind:  g,
			Name:              name,
			Namespace:         ns,
			CreationTimestamp: wlT0.Add(time.Duration(tp.Choose(3, "ctime")) * time.Second), // ties are frequent
		},
		Spec: spec,
	}
	wd.exists[key] = c
	return mutation{kind: kind, desc: fmt.Sprintf("create %s %v", key, compactSpec(spec)), apply: func(inst *wisInstance) error {
		_, err := inst.fds.Store().Create(c.DeepCopy())
		return err
	}}
}

// endpointChange returns a mutation that only changes the endpoints of an existing ServiceEntry declaring host
// (nil if there is none): the change a frozen EDS generator for that host would make stale.
func (wd *world) endpointChange(tp *engine.Tape, hostname string) *mutation {
	for _, k := range wd.existingKeys() {
		c := wd.exists[k]
		if c.GroupVersionKind.Kind != "ServiceEntry" {
			continue
		}
		se := c.Spec.(*networking.ServiceEntry)
		if !contains(se.Hosts, hostname) || hostname[0] == '*' {
			continue
		}
		wd.seq++
		nc := c.DeepCopy()
		nse := nc.Spec.(*networking.ServiceEntry)
		nse.Resolution = networking.ServiceEntry_STATIC
		nse.WorkloadSelector = nil
		nse.Endpoints = nil
		n := 1 + tp.Choose(2, "neps")
		for i := 0; i < n; i++ {
			nse.Endpoints = append(nse.Endpoints, &networking.WorkloadEntry{
				Address:  fmt.Sprintf("10.1.9.%d", (wd.seq*2+i)%250+1),
				Labels:   map[string]string{"version": []string{"v1", "v2"}[tp.Choose(2, "epver")]},
				Locality: []string{"region1/zone1", "region2/zone2"}[tp.Choose(2, "loc")],
			})
		}
		nc.ResourceVersion = ""
		wd.exists[k] = nc
		g, name, ns := nc.GroupVersionKind, nc.Name, nc.Namespace
		_ = g
		_, _ = name, ns
		m := wd.ticking(mutation{kind: "ServiceEntry", desc: fmt.Sprintf("update endpoints of %s -> %v", k, nse.Endpoints), apply: func(inst *wisInstance) error {
			_, err := inst.fds.Store().Update(nc.DeepCopy())
			return err
		}})
		return &m
	}
	return nil
}

func compactSpec(s config.Spec) string {
	str := fmt.Sprint(s)
	if len(str) > 260 {
		str = str[:260] + "..."
	}
	return str
}

func (wd *world) existingKeys() []string {
	out := make([]string, 0, len(wd.exists))
	for k := range wd.exists {
		out = append(out, k)
	}
	sort.Strings(out)
	return out
}

// a syntactically valid JWKS so that no network fetch is ever attempted
const wlJwks = `{ "keys":[ {"e":"AQAB","kid":"DHFbpoIUqrY8t2zpA2qXfCmr5VO5ZEr4RzHU_-envvQ","kty":"RSA","n":"xAE7eB6qugXyCAG3yhh7pkDkT65pHymX-P7KfIupjf59vsdo91bSP9C8H07pSAGQO1MV_xFj9VswgsCg4R6otmg5PV2He95lZdHtOcU5DXIg_pbhLdKXbi66GlVeK6ABZOUW3WYtnNHD-91gVuoeJT_DwtGGcp4ignkgXfkiEm4sw-4sfb4qdt5oLbyVpmW6x9cfa7vs2WTfURiCrBoUqgBo_-4WTiULmmHSGZHOjzwa8WtrtOQGsAFjIbno85jp6MnGGGZPYZbDAa_b3y5u-YpW7ypZrvD8BgtKVjgtQgZhLAGezMt0ua3DRrWnKqTZ0BJ_EyxOGuHJrLsn00fnMQ"}]}`

type kubeWorld struct {
	weight int
}

func (k *kubeWorld) next(tp *engine.Tape, seq int) mutation { panic("kube workload not built yet") }
