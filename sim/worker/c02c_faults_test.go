package worker

import (
	"fmt"
	"testing"
	"testing/synctest"

	"google.golang.org/grpc/codes"

	"istio.io/istio/pilot/pkg/features"
	"verif/sim/engine"
)

// C02 (c): whole-istiod simulation with client faults and a small push throttle: a client whose stream
// fails or closes at any moment (while its push event waits on its push channel, while it is parked in
// Send, during a push) must release everything it held, so later updates still reach every other client.

func init() { register("c02c", "C02", runC02c) }

func runC02c(t *testing.T, r *engine.Run) {
	tp := r.T
	bubbleInit()
	db := pickDebounce(tp)
	prev := features.PushThrottle
	features.PushThrottle = 1 + tp.Choose(2, "throttle")
	defer func() { features.PushThrottle = prev }()
	inst := newWisInstance(t, "main", wisOpts{debounceAfter: db.after, debounceMax: db.max})
	features.PushThrottle = prev
	defer func() {
		inst.Close()
		synctest.Wait()
	}()
	w := newWis(t, r, inst)
	defer w.cancel()
	for len(w.clients) < 2 {
		w.clients = nil
		for _, c := range pickClients(tp, 4, true) {
			w.addClient(c)
		}
	}
	for _, c := range w.clients {
		w.connect(c, inst, false)
	}
	if !w.quiesce(inst, w.clients) {
		r.Inconclusive = "no initial quiescence"
		return
	}
	wd := newWorld(tp, nil)
	defer func() {
		if wd.raced {
			r.Probe("pushrace_tagged_run")
		}
	}()
	wd.collide = 0
	maxSteps := 10 + tp.Choose(50, "maxsteps")
	r.Logf("clients=%v throttle=%s debounce=%v", clientNames(w.clients), r.T.Rec[1].L, db)
	nmut := 0
	alive := func() int {
		n := 0
		for _, c := range w.clients {
			if c.connected {
				n++
			}
		}
		return n
	}
	for r.Steps = 0; r.Steps < maxSteps && !r.Failed() && !tp.Exhausted(); r.Steps++ {
		type act struct {
			name string
			fn   func()
		}
		var acts []act
		add := func(weight int, name string, fn func()) {
			for i := 0; i < weight; i++ {
				acts = append(acts, act{name, fn})
			}
		}
		if nmut < 20 {
			add(3, "mutate", func() {
				m := wd.next(tp)
				if err := m.apply(inst); err == nil {
					synctest.Wait()
					nmut++
					r.Logf("t=%v %s", w.now(), m.desc)
				}
			})
		}
		add(2, "gap", func() { w.gap(tp, db) })
		for ci, c := range w.clients {
			c := c
			if !c.connected {
				continue
			}
			pending, processing, _ := inst.fds.Discovery.VerifPushState()
			if w.hasParkedSend(c) {
				add(3, fmt.Sprintf("resp:%d", ci), func() { w.deliverResp(c) })
				if alive() > 1 {
					add(1, fmt.Sprintf("senderr:%d", ci), func() {
						r.Fault("send_error")
						r.Probe("fault_while_push_outstanding")
						r.NonTriv = true
						r.Logf("%s: parked send fails", c.name)
						w.failSend(c, []codes.Code{codes.Unavailable, codes.DeadlineExceeded}[tp.Choose(2, "code")])
					})
				}
			}
			if w.canDeliverReq(c) {
				add(3, fmt.Sprintf("req:%d", ci), func() { w.deliverReq(c) })
			}
			if alive() > 1 {
				add(1, fmt.Sprintf("cut:%d", ci), func() {
					r.Fault("stream_cut")
					if w.hasParkedSend(c) || pending+processing > 0 {
						r.Probe("fault_while_push_outstanding")
						r.NonTriv = true
					}
					r.Logf("%s: stream cut (parked send=%v, queue pending=%d processing=%d)", c.name, w.hasParkedSend(c), pending, processing)
					w.cut(c)
				})
			}
		}
		a := acts[tp.Choose(len(acts), "act")]
		tp.Note(a.name)
		a.fn()
		for _, c := range w.clients {
			w.reapStream(c)
		}
	}
	if r.Failed() {
		return
	}
	// faults stop. One more update must still reach every surviving client.
	m := wd.next(tp)
	if err := m.apply(inst); err == nil {
		synctest.Wait()
		r.Logf("t=%v (after faults) %s", w.now(), m.desc)
	}
	var survivors []*xdsClient
	for _, c := range w.clients {
		w.reapStream(c)
		if c.connected {
			survivors = append(survivors, c)
		}
	}
	if !w.quiesce(inst, survivors) {
		pending, processing, inflight := inst.fds.Discovery.VerifPushState()
		r.Fail("c02.pushes_stuck", "", "after faults stopped the push pipeline did not drain: pending=%d processing=%d semaphore=%d inbound=%d committed=%d (a dead client still holds a push slot or queue entry)",
			pending, processing, inflight, inst.fds.Discovery.InboundUpdates.Load(), inst.fds.Discovery.CommittedUpdates.Load())
		return
	}
	pending, processing, inflight := inst.fds.Discovery.VerifPushState()
	if pending != 0 || processing != 0 || inflight > 1 {
		r.Fail("c02.resources_not_released", "", "idle server still shows pending=%d processing=%d semaphore=%d (idle is 0/0/1)", pending, processing, inflight)
		return
	}
	o := inst.opts
	o.configs = inst.snapshotConfigs()
	fresh, ok := w.freshViews(o, survivors)
	if !ok {
		r.Inconclusive = "fresh replica did not quiesce"
		return
	}
	r.Probe("checkpoints")
	for _, c := range survivors {
		if d := diffViews(c.heldView(), fresh[c.name]); len(d) > 0 {
			key := wd.everTags() + "|" + d[0].typ + ":" + d[0].kind
			if d[0].field != "" {
				key += ":" + d[0].field
			}
			r.Fail("c02.update_not_delivered", key, "after faults stopped surviving client %s misses updates:%s", c.name, fmtDiffs(d))
			return
		}
	}
	for _, c := range w.clients {
		w.cut(c)
	}
}
