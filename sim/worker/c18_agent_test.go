//go:build agentsim

package worker

import (
	"bytes"
	"crypto"
	"crypto/ecdsa"
	"crypto/elliptic"
	"crypto/rand"
	"crypto/x509"
	"crypto/x509/pkix"
	"encoding/pem"
	"errors"
	"fmt"
	"math/big"
	"strings"
	"sync"
	"testing"
	"testing/synctest"
	"time"

	"istio.io/istio/pkg/security"
	"istio.io/istio/security/pkg/nodeagent/cache"
	"verif/sim/engine"
)

// C18: the real node-agent SecretManagerClient (+ delayed queue, rotateTime) on the virtual clock, a simulator CA
// that signs real X.509 and parks every CSRSign until the simulator decides its outcome, 2-6 concurrent callers,
// a subscriber recording secretHandler callbacks, trust-bundle updates (DESIGN 4.12). secretcache.go is built through
// a generated overlay (channel-backed generate lock, simulator-owned fsnotify channels, tape-driven jitter).

func init() { register("c18", "C18", runC18) }

type caDecision struct {
	err error
	ttl time.Duration // 0 = honour the requested TTL
}

type caIssued struct {
	serial  int64
	leafPEM string
	roots   []string // bundle served with this signing
	at      time.Time
	expire  time.Time
}

type simCA struct {
	mu        sync.Mutex
	rootKey   *ecdsa.PrivateKey
	rootCert  *x509.Certificate
	rootPEM   string
	extraRoot string // an additional root served in the bundle (after a root change the old one stays for a while)
	calls     int
	inflight  int
	maxInfl   int
	decide    chan caDecision
	issued    []*caIssued
	serial    int64
	failNextB bool
}

func pemCert(der []byte) string {
	return string(pem.EncodeToMemory(&pem.Block{Type: "CERTIFICATE", Bytes: der}))
}

func (c *simCA) newRoot(n int) {
	k, _ := ecdsa.GenerateKey(elliptic.P256(), rand.Reader)
	tmpl := &x509.Certificate{
		SerialNumber: big.NewInt(int64(1000 + n)), Subject: pkix.Name{CommonName: fmt.Sprintf("sim-root-%d", n)},
		NotBefore: time.Now().Add(-time.Hour), NotAfter: time.Now().Add(10 * 365 * 24 * time.Hour),
		IsCA: true, BasicConstraintsValid: true, KeyUsage: x509.KeyUsageCertSign,
	}
	der, _ := x509.CreateCertificate(rand.Reader, tmpl, tmpl, &k.PublicKey, k)
	cert, _ := x509.ParseCertificate(der)
	c.mu.Lock()
	if c.rootPEM != "" {
		c.extraRoot = c.rootPEM
	}
	c.rootKey, c.rootCert, c.rootPEM = k, cert, pemCert(der)
	c.mu.Unlock()
}

func (c *simCA) bundle() []string {
	c.mu.Lock()
	defer c.mu.Unlock()
	out := []string{c.rootPEM}
	if c.extraRoot != "" {
		out = append(out, c.extraRoot)
	}
	return out
}

func (c *simCA) CSRSign(csrPEM []byte, ttlSec int64) ([]string, error) {
	c.mu.Lock()
	c.calls++
	c.inflight++
	if c.inflight > c.maxInfl {
		c.maxInfl = c.inflight
	}
	c.mu.Unlock()
	d := <-c.decide // parked until the simulator decides the outcome
	c.mu.Lock()
	defer c.mu.Unlock()
	c.inflight--
	if d.err != nil {
		return nil, d.err
	}
	blk, _ := pem.Decode(csrPEM)
	if blk == nil {
		return nil, errors.New("bad csr pem")
	}
	csr, err := x509.ParseCertificateRequest(blk.Bytes)
	if err != nil {
		return nil, err
	}
	ttl := time.Duration(ttlSec) * time.Second
	if d.ttl != 0 {
		ttl = d.ttl
	}
	c.serial++
	now := time.Now()
	tmpl := &x509.Certificate{
		SerialNumber: big.NewInt(c.serial), NotBefore: now, NotAfter: now.Add(ttl),
		KeyUsage: x509.KeyUsageDigitalSignature, ExtKeyUsage: []x509.ExtKeyUsage{x509.ExtKeyUsageClientAuth, x509.ExtKeyUsageServerAuth},
		ExtraExtensions: csr.Extensions,
	}
	der, err := x509.CreateCertificate(rand.Reader, tmpl, c.rootCert, csr.PublicKey, c.rootKey)
	if err != nil {
		return nil, err
	}
	leaf := pemCert(der)
	roots := []string{c.rootPEM}
	if c.extraRoot != "" {
		roots = append(roots, c.extraRoot)
	}
	// X.509 times have one-second resolution
	c.issued = append(c.issued, &caIssued{serial: c.serial, leafPEM: leaf, roots: roots, at: now, expire: now.Add(ttl).Truncate(time.Second)})
	return []string{leaf, c.rootPEM}, nil
}

func (c *simCA) GetRootCertBundle() ([]string, error) { return c.bundle(), nil }
func (c *simCA) Close()                               {}

func publicOfKeyPEM(keyPEM []byte) (crypto.PublicKey, error) {
	blk, _ := pem.Decode(keyPEM)
	if blk == nil {
		return nil, errors.New("no pem block in private key")
	}
	if k, err := x509.ParseECPrivateKey(blk.Bytes); err == nil {
		return &k.PublicKey, nil
	}
	k, err := x509.ParsePKCS8PrivateKey(blk.Bytes)
	if err != nil {
		return nil, err
	}
	if s, ok := k.(crypto.Signer); ok {
		return s.Public(), nil
	}
	return nil, errors.New("unknown key type")
}

type c18Call struct {
	id       int
	resource string
	item     *security.SecretItem
	err      error
	done     bool
	seen     bool
	started  time.Time
}

func runC18(t *testing.T, r *engine.Run) {
	tp := r.T
	quietLogs()
	ratios := []float64{0, 0.1, 0.5, 0.9, 1}
	ratio := ratios[tp.Choose(len(ratios), "ratio")]
	jitter := []float64{0, 0.01, 0.2, 1}[tp.Choose(4, "jitter")]
	ttl := []time.Duration{10 * time.Second, 10 * time.Minute, 24 * time.Hour, 90 * 24 * time.Hour}[tp.Choose(4, "ttl")]
	cache.VerifRand = func() (float64, int) { return float64(tp.Choose(1001, "jitterDraw")) / 1000, tp.Choose(2, "jitterSign") }
	defer func() { cache.VerifRand = func() (float64, int) { return 0, 0 } }()
	sched := engine.NewSched()
	freeze := tp.Bool(1, 2, "freezeBeforeRegister")
	sched.Filter = func(point, key string) bool { return freeze }
	cache.VerifYieldHook = func(point string) { sched.Yield(point, "") }
	defer func() { cache.VerifYieldHook = nil }()
	ca := &simCA{decide: make(chan caDecision)}
	ca.newRoot(0)
	opts := &security.Options{
		TrustDomain: "cluster.local", WorkloadNamespace: "a", ServiceAccount: "sa1",
		SecretTTL: ttl, SecretRotationGracePeriodRatio: ratio, SecretRotationGracePeriodRatioJitter: jitter,
		ECCSigAlg: "ECDSA", ECCCurve: "P256",
	}
	sc, err := cache.NewSecretManagerClient(ca, opts)
	if err != nil {
		r.Inconclusive = "cannot create SecretManagerClient: " + err.Error()
		return
	}
	defer func() {
		sc.Close()
		synctest.Wait()
	}()
	r.Logf("ratio=%v jitter=%v ttl=%v", ratio, jitter, ttl)
	var cbMu sync.Mutex
	type cb struct {
		at   time.Time
		name string
	}
	var cbs []cb
	sc.RegisterSecretHandler(func(name string) {
		cbMu.Lock()
		cbs = append(cbs, cb{time.Now(), name})
		cbMu.Unlock()
	})
	t0 := time.Now()
	var calls []*c18Call
	var callMu sync.Mutex
	outstanding := func() int {
		n := 0
		for _, c := range calls {
			if !c.done {
				n++
			}
		}
		return n
	}
	var configBundle []byte
	// oracle state
	var epochCert string        // chain served in the current epoch ("" = none yet)
	var epochIssued *caIssued   // the CA record of that certificate
	epochSuccesses := 0         // successful signings since the cache was last emptied
	rotationSeenForEpoch := false
	cbSeen := 0
	lastDefaultRoots := ""
	expectRootCB := false
	caErrPending := false // a signing failed: the next call must reach the CA again
	callsAtFailure := 0
	caErrDecisions, callerErrors := 0, 0
	type pendingRootCheck struct{ cbFrom int }
	var pendingRoot *pendingRootCheck
	rootsCached := "" // mirrors which CA roots were last announced; "?" = unknown (a ROOTCA-triggered signing happened)

	newEpoch := func(why string) {
		epochCert, epochIssued, epochSuccesses, rotationSeenForEpoch = "", nil, 0, false
		r.Logf("t=%v epoch ends: %s", time.Since(t0), why)
	}
	containsAll := func(bundle []byte, pems []string) string {
		for _, p := range pems {
			if p != "" && !bytes.Contains(bundle, []byte(strings.TrimSpace(p))) {
				return p
			}
		}
		return ""
	}
	processReturns := func() {
		callMu.Lock()
		defer callMu.Unlock()
		for _, c := range calls {
			if !c.done || c.seen {
				continue
			}
			c.seen = true
			if c.err != nil {
				r.Logf("t=%v call#%d %s -> error %v", time.Since(t0), c.id, c.resource, c.err)
				callerErrors++
				if callerErrors > caErrDecisions {
					r.Fail("c18.sticky_failure", "", "call#%d failed (%v) although every failed signing has already been reported to another caller: a failure was served without asking the CA again", c.id, c.err)
					return
				}
				continue
			}
			it := c.item
			if c.resource == security.WorkloadKeyCertResourceName {
				pub, err := publicOfKeyPEM(it.PrivateKey)
				if err != nil {
					r.Fail("c18.bad_private_key", "", "call#%d: private key does not parse: %v", c.id, err)
					return
				}
				blk, _ := pem.Decode(it.CertificateChain)
				if blk == nil {
					r.Fail("c18.bad_chain", "", "call#%d: certificate chain does not parse", c.id)
					return
				}
				leaf, err := x509.ParseCertificate(blk.Bytes)
				if err != nil {
					r.Fail("c18.bad_chain", "", "call#%d: leaf does not parse: %v", c.id, err)
					return
				}
				if !leaf.PublicKey.(*ecdsa.PublicKey).Equal(pub) {
					r.Fail("c18.key_cert_mismatch", "", "call#%d: returned private key does not belong to the returned certificate (serial %v)", c.id, leaf.SerialNumber)
					return
				}
				if time.Now().After(leaf.NotAfter) {
					r.Fail("c18.expired_cert_served", "", "call#%d at t=%v got a certificate that expired at %v", c.id, time.Since(t0), leaf.NotAfter.Sub(t0))
					return
				}
				chain := string(it.CertificateChain)
				if epochIssued != nil && epochIssued.serial != leaf.SerialNumber.Int64() {
					r.Fail("c18.different_pairs_served", "", "call#%d got certificate serial %v but the certificate signed for this epoch is serial %d", c.id, leaf.SerialNumber, epochIssued.serial)
					return
				}
				if epochCert == "" {
					epochCert = chain
				} else if epochCert != chain {
					r.Fail("c18.different_pairs_served", "", "call#%d got certificate serial %v, another caller of the same signing epoch got a different pair", c.id, leaf.SerialNumber)
					return
				}
				r.Logf("t=%v call#%d default -> serial %v expires %v", time.Since(t0), c.id, leaf.SerialNumber, leaf.NotAfter.Sub(t0))
			} else {
				want := ca.bundle()
				if epochIssued != nil {
					want = epochIssued.roots
				} else if len(ca.issued) > 0 {
					want = ca.issued[len(ca.issued)-1].roots
				}
				want = append(append([]string(nil), want...), splitPEMs(configBundle)...)
				if miss := containsAll(it.RootCert, want); miss != "" {
					r.Fail("c18.trust_bundle_incomplete", "", "call#%d ROOTCA: returned bundle (%d bytes) lacks a root the CA served with the current certificate or a configured anchor", c.id, len(it.RootCert))
					return
				}
				r.Logf("t=%v call#%d ROOTCA -> %d bytes", time.Since(t0), c.id, len(it.RootCert))
			}
		}
	}
	processCallbacks := func(driverBundleUpdate bool) {
		cbMu.Lock()
		defer cbMu.Unlock()
		for cbSeen < len(cbs) {
			c := cbs[cbSeen]
			cbSeen++
			r.Logf("t=%v callback %s", c.at.Sub(t0), c.name)
			if c.name == security.RootCertReqResourceName {
				expectRootCB = false
				continue
			}
			if driverBundleUpdate {
				continue // the notification UpdateConfigTrustBundle itself sends
			}
			// a rotation callback
			if epochIssued == nil {
				r.Fail("c18.rotation_without_certificate", "", "rotation callback at t=%v although no certificate is cached (stale or duplicate rotation task)", c.at.Sub(t0))
				return
			}
			if rotationSeenForEpoch {
				r.Fail("c18.duplicate_rotation", "", "second rotation callback for the certificate issued at %v", epochIssued.at.Sub(t0))
				return
			}
			if c.at.After(epochIssued.expire) {
				r.Fail("c18.rotation_after_expiry", "", "rotation callback at %v, certificate expired at %v", c.at.Sub(t0), epochIssued.expire.Sub(t0))
				return
			}
			if ratio > jitter && !c.at.Before(epochIssued.expire) {
				r.Fail("c18.rotation_not_before_expiry", "", "grace ratio %v > jitter %v but rotation callback at %v is not strictly before expiry %v", ratio, jitter, c.at.Sub(t0), epochIssued.expire.Sub(t0))
				return
			}
			r.Probe("rotations")
			rotationSeenForEpoch = true
			newEpoch("rotation")
		}
	}
	checkOverdue := func() {
		if epochIssued != nil && !rotationSeenForEpoch && time.Now().After(epochIssued.expire.Add(time.Second)) {
			r.Fail("c18.no_rotation_before_expiry", "", "at t=%v the cached certificate (issued %v, expired %v) has had no rotation callback", time.Since(t0), epochIssued.at.Sub(t0), epochIssued.expire.Sub(t0))
		}
	}

	maxSteps := 10 + tp.Choose(50, "maxsteps")
	rootN := 0
	for r.Steps = 0; r.Steps < maxSteps && !r.Failed() && !tp.Exhausted(); r.Steps++ {
		tick := time.Duration(1+2*tp.Choose(500, "tick")) * time.Millisecond // distinct virtual instants
		if len(sched.Parked()) > 0 {
			tick = tick%(10*time.Millisecond) + time.Millisecond // a frozen caller is ordered, not aged
		}
		time.Sleep(tick)
		synctest.Wait()
		processCallbacks(false)
		if r.Failed() {
			break
		}
		var acts []string
		if outstanding() < 6 {
			acts = append(acts, "call:default", "call:default", "call:ROOTCA")
		}
		ca.mu.Lock()
		parkedCA := ca.inflight > 0
		ca.mu.Unlock()
		if parkedCA {
			acts = append(acts, "ca:ok", "ca:ok", "ca:ok", "ca:err", "ca:short_ttl")
		}
		acts = append(acts, "bundle", "ca:root_change")
		if len(sched.Parked()) == 0 {
			// no time jumps while a caller is frozen between signing and caching: a stall of hours at that point
			// legitimately serves an old certificate; the freeze point is there to order callers, not to age them
			acts = append(acts, "advance", "advance")
		}
		for _, k := range sched.Parked() {
			acts = append(acts, "release:"+k, "release:"+k, "release:"+k)
		}
		a := acts[tp.Choose(len(acts), "act")]
		tp.Note(a)
		bundleUpdate := false
		if strings.HasPrefix(a, "release:") {
			sched.Release(a[len("release:"):])
			r.Probe("released_before_register")
		}
		switch a {
		case "call:default", "call:ROOTCA":
			res := security.WorkloadKeyCertResourceName
			if a == "call:ROOTCA" {
				res = security.RootCertReqResourceName
			}
			c := &c18Call{id: len(calls), resource: res, started: time.Now()}
			calls = append(calls, c)
			if parkedCA {
				r.Probe("call_while_csr_in_flight")
				r.NonTriv = true
			}
			if caErrPending {
				callsAtFailure = ca.calls
			}
			go func() {
				it, err := sc.GenerateSecret(res)
				callMu.Lock()
				c.item, c.err, c.done = it, err, true
				callMu.Unlock()
			}()
			r.Logf("t=%v call#%d %s starts", time.Since(t0), c.id, res)
		case "ca:ok", "ca:short_ttl", "ca:err":
			d := caDecision{}
			switch a {
			case "ca:err":
				d.err = errors.New("simulated CA failure")
				caErrDecisions++
				r.Fault("ca_error")
				caErrPending = true
				callsAtFailure = ca.calls
			case "ca:short_ttl":
				d.ttl = []time.Duration{30 * time.Second, 2 * time.Minute}[tp.Choose(2, "short")]
				r.Fault("ca_short_ttl")
			}
			before := len(ca.issued)
			_ = lastDefaultRoots
			allDefault, allRoot := true, true
			for _, c := range calls {
				if !c.done && c.resource != security.WorkloadKeyCertResourceName {
					allDefault = false
				}
				if !c.done && c.resource == security.WorkloadKeyCertResourceName {
					allRoot = false
				}
			}
			cbBefore := len(cbs)
			ca.decide <- d
			synctest.Wait()
			if len(ca.issued) > before {
				epochSuccesses++
				caErrPending = false
				if epochSuccesses == 1 {
					epochIssued = ca.issued[len(ca.issued)-1] // the certificate the agent caches for this epoch
				}
				if epochSuccesses > 1 {
					r.Fail("c18.second_signing_in_one_epoch", "", "a second certificate was signed although the first one of this epoch (serial %d) was never rotated or invalidated", ca.issued[before-1].serial)
					break
				}
				served := strings.Join(ca.issued[len(ca.issued)-1].roots, "")
				if allRoot {
					// only the requester learns the root of a signing triggered by a ROOTCA request: nothing has been
					// announced, so the next workload-certificate signing still owes the announcement (rootsCached stays)
				} else if !allDefault {
					rootsCached = "?" // mixed callers: which of them triggered the signing is not observable
				} else {
					if rootsCached != "?" && rootsCached != served {
						// evaluated once the signing caller has run to completion (it may be frozen before caching)
						pendingRoot = &pendingRootCheck{cbFrom: cbBefore}
					}
					rootsCached = served
				}
			}
			r.Logf("t=%v CA decides %s (calls=%d issued=%d)", time.Since(t0), a, ca.calls, len(ca.issued))
		case "ca:root_change":
			rootN++
			ca.newRoot(rootN)
			r.Fault("ca_root_change")
			r.Logf("t=%v CA root changes", time.Since(t0))
		case "bundle":
			configBundle = []byte(ca.bundle()[0])
			if tp.Bool(1, 2, "emptyBundle") {
				configBundle = nil
			}
			r.Fault("trust_bundle_update")
			before := len(cbs)
			_ = sc.UpdateConfigTrustBundle(configBundle)
			bundleUpdate = len(cbs) > before
			if bundleUpdate {
				keep, keepN := epochIssued, epochSuccesses
				newEpoch("UpdateConfigTrustBundle")
				if len(sched.Parked()) > 0 && keepN == 1 {
					// a signed certificate is about to be cached by the frozen caller: it becomes this epoch's certificate
					epochIssued, epochSuccesses = keep, keepN
				}
			}
			if parkedCA {
				r.Probe("bundle_update_while_csr_in_flight")
			}
		case "advance":
			var d time.Duration
			switch tp.Choose(4, "adv") {
			case 0:
				d = time.Second
			case 1:
				d = ttl / 3
			case 2:
				d = ttl + 3*time.Second
			case 3:
				if epochIssued != nil {
					d = time.Until(epochIssued.expire) - time.Second
				}
			}
			if d <= 0 {
				d = time.Second
			}
			time.Sleep(d)
			r.Logf("t=%v advanced %v", time.Since(t0), d)
		}
		synctest.Wait()
		// returns first: a certificate whose rotation delay is zero is rotated in the very step that issued it
		processReturns()
		processCallbacks(bundleUpdate)
		if pendingRoot != nil && len(sched.Parked()) == 0 && !r.Failed() {
			announced := false
			cbMu.Lock()
			for _, c := range cbs[pendingRoot.cbFrom:] {
				if c.name == security.RootCertReqResourceName {
					announced = true
				}
			}
			cbMu.Unlock()
			if !announced {
				r.Fail("c18.root_change_not_announced", "", "a signing returned a root bundle that differs from the previously cached one but no ROOTCA callback was sent")
			} else {
				r.Probe("root_change_announced")
			}
			pendingRoot = nil
		}
		ca.mu.Lock()
		if ca.maxInfl > 1 {
			r.Fail("c18.concurrent_signing_requests", "", "%d CSRSign calls were in flight at the same time", ca.maxInfl)
		}
		ca.mu.Unlock()
		checkOverdue()
	}
	// faults stop: every parked CSR succeeds; a caller obtains a valid pair within one CA round trip
	sched.Drain()
	synctest.Wait()
	processReturns()
	processCallbacks(false)
	for i := 0; i < 20 && !r.Failed(); i++ {
		ca.mu.Lock()
		parked := ca.inflight > 0
		ca.mu.Unlock()
		if !parked {
			break
		}
		before := len(ca.issued)
		ca.decide <- caDecision{}
		synctest.Wait()
		if len(ca.issued) > before {
			epochSuccesses++
			if epochSuccesses == 1 {
				epochIssued = ca.issued[len(ca.issued)-1]
			}
		}
		processReturns()
		processCallbacks(false)
	}
	if !r.Failed() {
		if n := outstanding(); n > 0 {
			r.Fail("c18.caller_stuck", "", "%d GenerateSecret call(s) never returned after the CA answered everything", n)
		}
		if caErrPending && ca.calls == callsAtFailure && len(calls) > 0 {
			// informational: no call happened after the failure in this run
			r.Probe("failure_without_followup")
		}
	}
	_ = lastDefaultRoots
	_ = expectRootCB
}

func splitPEMs(b []byte) []string {
	var out []string
	for {
		var blk *pem.Block
		blk, b = pem.Decode(b)
		if blk == nil {
			return out
		}
		out = append(out, string(pem.EncodeToMemory(blk)))
	}
}
