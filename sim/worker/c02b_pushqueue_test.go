package worker

import (
	"fmt"
	"sort"
	"strings"
	"sync"
	"testing"
	"testing/synctest"
	"time"

	"istio.io/istio/pilot/pkg/model"
	"istio.io/istio/pilot/pkg/xds"
	"istio.io/istio/pkg/config/schema/kind"
	"istio.io/istio/pkg/util/sets"
	"verif/sim/engine"
)

// C02 (b): the per-proxy PushQueue under every interleaving of Enqueue / Dequeue /
// MarkDone / ShutDown. Real code: xds.PushQueue, model.PushRequest.CopyMerge.
// Every PushQueue operation is atomic under one lock, so the simulator's choice of
// which operation happens next reaches every interleaving.

func init() { register("c02b", "C02", runC02b) }

type pqReqSnap struct {
	configs   []string
	addrs     []string
	forced    bool
	push      *model.PushContext
	start     time.Time
	reasons   string
	waypoints int
}

func snapReq(r *model.PushRequest) pqReqSnap {
	s := pqReqSnap{forced: r.Forced, push: r.Push, start: r.Start, waypoints: len(r.WaypointsUpdated)}
	for k := range r.ConfigsUpdated {
		s.configs = append(s.configs, k.String())
	}
	sort.Strings(s.configs)
	for k := range r.AddressesUpdated {
		s.addrs = append(s.addrs, k)
	}
	sort.Strings(s.addrs)
	var rs []string
	for k, v := range r.Reason {
		rs = append(rs, fmt.Sprintf("%s=%d", k, v))
	}
	sort.Strings(rs)
	s.reasons = strings.Join(rs, ",")
	return s
}

func (a pqReqSnap) equal(b pqReqSnap) bool {
	return strings.Join(a.configs, ";") == strings.Join(b.configs, ";") &&
		strings.Join(a.addrs, ";") == strings.Join(b.addrs, ";") &&
		a.forced == b.forced && a.push == b.push && a.start.Equal(b.start) && a.reasons == b.reasons && a.waypoints == b.waypoints
}

func (a pqReqSnap) String() string {
	return fmt.Sprintf("{cfg=%v addr=%v forced=%v push=%s start=%d reasons=%s}", a.configs, a.addrs, a.forced, pushName(a.push), a.start.UnixNano(), a.reasons)
}

var pqKeyUniverse = []model.ConfigKey{
	{Kind: kind.ServiceEntry, Name: "a.example.com", Namespace: "a"},
	{Kind: kind.ServiceEntry, Name: "b.example.com", Namespace: "b"},
	{Kind: kind.VirtualService, Name: "vs", Namespace: "a"},
	{Kind: kind.DestinationRule, Name: "dr", Namespace: "a"},
	{Kind: kind.Endpoints, Name: "a.example.com", Namespace: "a"},
	{Kind: kind.AuthorizationPolicy, Name: "ap", Namespace: "b"},
}

var pqReasons = []model.TriggerReason{model.ConfigUpdate, model.EndpointUpdate, model.ServiceUpdate, model.ProxyRequest}

// expectation accumulated per connection since its last dequeue
type pqExpect struct {
	tokens  map[string]struct{}
	configs map[string]struct{}
	nilCfg  bool // all merged inputs had nil ConfigsUpdated
	forced  bool
	push    *model.PushContext
	start   time.Time
	reasons map[model.TriggerReason]int
	n       int
}

func newPqExpect() *pqExpect {
	return &pqExpect{tokens: map[string]struct{}{}, configs: map[string]struct{}{}, reasons: map[model.TriggerReason]int{}, nilCfg: true}
}

func (e *pqExpect) add(r *model.PushRequest) {
	if e.n == 0 {
		e.start = r.Start
	}
	e.n++
	for k := range r.AddressesUpdated {
		e.tokens[k] = struct{}{}
	}
	if r.ConfigsUpdated != nil {
		e.nilCfg = false
	}
	for k := range r.ConfigsUpdated {
		e.configs[k.String()] = struct{}{}
	}
	e.forced = e.forced || r.Forced
	e.push = r.Push
	for k, v := range r.Reason {
		e.reasons[k] += v
	}
}

func keysOf(m map[string]struct{}) []string {
	out := make([]string, 0, len(m))
	for k := range m {
		out = append(out, k)
	}
	sort.Strings(out)
	return out
}

func runC02b(t *testing.T, r *engine.Run) {
	tp := r.T
	nconn := 1 + tp.Choose(4, "nconn")
	nworkers := 1 + tp.Choose(3, "nworkers")
	maxSteps := 10 + tp.Choose(60, "maxsteps")
	shutdownAllowed := tp.Bool(1, 3, "shutdownAllowed")
	r.Config["nconn"] = fmt.Sprint(nconn)
	r.Config["nworkers"] = fmt.Sprint(nworkers)

	q := xds.NewPushQueue()
	conns := make([]*xds.Connection, nconn)
	for i := range conns {
		conns[i] = &xds.Connection{}
	}
	connName := func(c *xds.Connection) string {
		for i, x := range conns {
			if x == c {
				return fmt.Sprintf("c%d", i)
			}
		}
		return "c?"
	}
	sched := engine.NewSched()

	// oracle state
	expect := map[*xds.Connection]*pqExpect{}
	outstanding := map[*xds.Connection]int{} // dequeued, not yet marked done
	for _, c := range conns {
		expect[c] = newPqExpect()
	}
	type shared struct {
		req  *model.PushRequest
		snap pqReqSnap
	}
	var sharedReqs []shared
	shutdown := false
	reqSeq := 0

	// workers
	type wstate struct {
		state string // idle | in_dequeue | holding | exited
		con   *xds.Connection
	}
	ws := make([]*wstate, nworkers)
	type deqEvent struct {
		w        int
		con      *xds.Connection
		req      *model.PushRequest
		shutdown bool
	}
	var deqLog []deqEvent
	var deqMu sync.Mutex
	for i := 0; i < nworkers; i++ {
		w := &wstate{state: "idle"}
		ws[i] = w
		name := fmt.Sprintf("w%d", i)
		idx := i
		go func() {
			for {
				sched.Yield("deq", name)
				w.state = "in_dequeue"
				con, req, sd := q.Dequeue()
				deqMu.Lock()
				deqLog = append(deqLog, deqEvent{idx, con, req, sd})
				deqMu.Unlock()
				if sd {
					w.state = "exited"
					return
				}
				w.state = "holding"
				w.con = con
				sched.Yield("done", name)
				q.MarkDone(con)
				w.con = nil
				w.state = "idle"
			}
		}()
	}
	synctest.Wait()

	deqSeen := 0
	processDequeues := func() {
		// several workers may have been woken in the same step: canonical order by worker index
		sort.SliceStable(deqLog[deqSeen:], func(i, j int) bool { return deqLog[deqSeen+i].w < deqLog[deqSeen+j].w })
		for ; deqSeen < len(deqLog); deqSeen++ {
			ev := deqLog[deqSeen]
			if ev.shutdown {
				r.Logf("w%d Dequeue -> shutdown", ev.w)
				if !shutdown {
					r.Fail("pq.spurious_shutdown", "", "Dequeue reported shutdown before ShutDown was called")
				}
				continue
			}
			c := ev.con
			got := snapReq(ev.req)
			r.Logf("w%d Dequeue -> %s %s", ev.w, connName(c), got)
			outstanding[c]++
			if outstanding[c] > 1 {
				r.Fail("pq.two_in_flight", "", "connection %s dequeued while a previous dequeue is not marked done", connName(c))
			}
			e := expect[c]
			if e == nil || e.n == 0 {
				r.Fail("pq.unexpected_dequeue", "", "connection %s dequeued with nothing enqueued for it: %s", connName(c), got)
				continue
			}
			want := pqReqSnap{configs: keysOf(e.configs), addrs: keysOf(e.tokens), forced: e.forced, push: e.push, start: e.start}
			if strings.Join(got.addrs, ";") != strings.Join(want.addrs, ";") {
				r.Fail("pq.tokens_mismatch", "", "connection %s: dequeued request carries %v, enqueued since last dequeue %v", connName(c), got.addrs, want.addrs)
			}
			if strings.Join(got.configs, ";") != strings.Join(want.configs, ";") {
				r.Fail("pq.keys_not_union", "", "connection %s: ConfigsUpdated %v, want union %v", connName(c), got.configs, want.configs)
			}
			if got.forced != want.forced {
				r.Fail("pq.forced_lost", "", "connection %s: Forced=%v want %v", connName(c), got.forced, want.forced)
			}
			if got.push != want.push {
				r.Fail("pq.not_newest_snapshot", "", "connection %s: Push is not the newest enqueued snapshot", connName(c))
			}
			if !got.start.Equal(want.start) {
				r.Fail("pq.start_not_oldest", "", "connection %s: Start=%d want oldest %d", connName(c), got.start.UnixNano(), want.start.UnixNano())
			}
			total := 0
			for k, v := range ev.req.Reason {
				total += v
				if e.reasons[k] != v {
					r.Fail("pq.reason_count", "", "connection %s: reason %s count %d want %d", connName(c), k, v, e.reasons[k])
				}
			}
			wantTotal := 0
			for _, v := range e.reasons {
				wantTotal += v
			}
			if total != wantTotal {
				r.Fail("pq.reason_count", "", "connection %s: reason total %d want %d", connName(c), total, wantTotal)
			}
			if e.n > 1 {
				r.Probe("merged_dequeue")
			}
			expect[c] = newPqExpect()
		}
	}
	checkShared := func(where string) {
		for i, s := range sharedReqs {
			if now := snapReq(s.req); !now.equal(s.snap) {
				r.Fail("pq.shared_request_mutated", "", "%s: shared request #%d changed from %s to %s", where, i, s.snap, now)
				return
			}
		}
	}
	checkLiveness := func() {
		blocked := 0
		for _, w := range ws {
			if w.state == "in_dequeue" {
				blocked++
			}
		}
		if blocked > 0 && q.Pending() > 0 {
			r.Fail("pq.lost_wakeup", "", "%d worker(s) blocked in Dequeue while %d connection(s) are queued", blocked, q.Pending())
		}
	}

	doEnqueue := func() {
		// one shared request object offered to a subset of connections, as AdsPushAll does
		reqSeq++
		time.Sleep(time.Duration(1+2*tp.Choose(50, "gap")) * time.Microsecond)
		req := &model.PushRequest{
			AddressesUpdated: sets.New(fmt.Sprintf("r%d", reqSeq)),
			Forced:           tp.Bool(1, 4, "forced"),
			Push:             &model.PushContext{PushVersion: fmt.Sprintf("v%d", reqSeq)},
			Start:            time.Now(),
			Reason:           model.NewReasonStats(pqReasons[tp.Choose(len(pqReasons), "reason")]),
		}
		switch tp.Choose(4, "cfgshape") {
		case 0: // nil set
		case 1:
			req.ConfigsUpdated = sets.New(pqKeyUniverse[tp.Choose(len(pqKeyUniverse), "k")])
		default:
			req.ConfigsUpdated = sets.New[model.ConfigKey]()
			n := 1 + tp.Choose(3, "nk")
			for i := 0; i < n; i++ {
				req.ConfigsUpdated.Insert(pqKeyUniverse[tp.Choose(len(pqKeyUniverse), "k")])
			}
		}
		sharedReqs = append(sharedReqs, shared{req, snapReq(req)})
		var targets []*xds.Connection
		if tp.Bool(1, 2, "toall") {
			targets = conns
		} else {
			targets = []*xds.Connection{conns[tp.Choose(nconn, "target")]}
		}
		var names []string
		for _, c := range targets {
			if outstanding[c] > 0 {
				r.Probe("enqueue_while_processing")
				r.NonTriv = true
			} else if expect[c].n > 0 {
				r.Probe("enqueue_while_pending")
			}
			q.Enqueue(c, req)
			if !shutdown {
				expect[c].add(req)
			} else {
				r.Probe("enqueue_after_shutdown")
			}
			names = append(names, connName(c))
		}
		r.Logf("Enqueue r%d -> %v %s", reqSeq, names, snapReq(req))
	}

	for r.Steps = 0; r.Steps < maxSteps && !r.Failed() && !tp.Exhausted(); r.Steps++ {
		parked := sched.Parked()
		acts := []string{"enqueue"}
		acts = append(acts, parked...)
		if shutdownAllowed && !shutdown {
			acts = append(acts, "shutdown")
		}
		// bias: enqueue twice as likely
		acts = append(acts, "enqueue")
		a := acts[tp.Choose(len(acts), "act")]
		tp.Note(a)
		switch {
		case a == "enqueue":
			doEnqueue()
		case a == "shutdown":
			q.ShutDown()
			shutdown = true
			r.Fault("shutdown")
			r.Logf("ShutDown")
		default:
			if strings.HasPrefix(a, "done|") {
				var wi int
				fmt.Sscanf(a, "done|w%d", &wi)
				c := ws[wi].con
				outstanding[c]--
				r.Logf("w%d MarkDone %s", wi, connName(c))
			} else {
				r.Logf("release %s", a)
			}
			sched.Release(a)
		}
		synctest.Wait()
		processDequeues()
		checkShared("after " + a)
		checkLiveness()
		st := fmt.Sprintf("p%d", q.Pending())
		for _, c := range conns {
			st += fmt.Sprintf("/%d.%d", outstanding[c], min(expect[c].n, 3))
		}
		r.State(st)
	}

	// wind down: no more producers; workers drain. Every accepted request must be delivered.
	for i := 0; i < 10*(nconn+nworkers)+20 && !r.Failed(); i++ {
		parked := sched.Parked()
		if len(parked) == 0 {
			break
		}
		a := parked[0]
		if strings.HasPrefix(a, "done|") {
			var wi int
			fmt.Sscanf(a, "done|w%d", &wi)
			outstanding[ws[wi].con]--
		}
		sched.Release(a)
		synctest.Wait()
		processDequeues()
		checkShared("drain")
		checkLiveness()
		r.Steps++
	}
	if !r.Failed() {
		for _, c := range conns {
			if expect[c].n > 0 {
				r.Fail("pq.update_lost", "", "connection %s: %d accepted request(s) %v never delivered after all workers drained", connName(c), expect[c].n, keysOf(expect[c].tokens))
			}
		}
		if q.Pending() != 0 {
			r.Fail("pq.update_lost", "", "queue still reports %d pending after drain", q.Pending())
		}
	}
	// let the workers exit so the bubble can end
	q.ShutDown()
	sched.Drain()
	synctest.Wait()
}

func pushName(p *model.PushContext) string {
	if p == nil {
		return "nil"
	}
	return p.PushVersion
}
