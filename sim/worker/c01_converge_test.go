package worker

import (
	"fmt"
	"testing"
	"testing/synctest"
	"time"

	core "github.com/envoyproxy/go-control-plane/envoy/config/core/v3"

	"istio.io/istio/pilot/pkg/model"
	v3 "istio.io/istio/pilot/pkg/xds/v3"
	"verif/sim/engine"
)

// C01: whole-istiod simulation, fresh-replica oracle (DESIGN 4.1).

func init() { register("c01", "C01", runC01) }

type clientSpec struct {
	locality *core.Locality // proxy locality (locality load balancing only applies to proxies that have one)
	name     string
	nodeID   string
	ns       string
	labels   map[string]string
	roots    []string
	meta     func(m *model.NodeMetadata)
}

var clientMenu = []clientSpec{
	{name: "sc-a-foo", nodeID: "sidecar~10.3.0.1~foo-1.a~a.svc.cluster.local", ns: "a", labels: map[string]string{"app": "foo"}, locality: &core.Locality{Region: "region1", Zone: "zone1"}},
	{name: "sc-a-bar", nodeID: "sidecar~10.3.0.2~bar-1.a~a.svc.cluster.local", ns: "a", labels: map[string]string{"app": "bar"}},
	{name: "sc-b-foo", nodeID: "sidecar~10.3.0.3~foo-1.b~b.svc.cluster.local", ns: "b", labels: map[string]string{"app": "foo"}, locality: &core.Locality{Region: "region2", Zone: "zone2"}},
	{name: "gw", nodeID: "router~10.3.0.9~gw-1.istio-system~istio-system.svc.cluster.local", ns: "istio-system", labels: map[string]string{"istio": "ingressgateway"}},
	{name: "sc-a-dns", nodeID: "sidecar~10.3.0.4~dns-1.a~a.svc.cluster.local", ns: "a", labels: map[string]string{"app": "dns"},
		roots: []string{v3.ClusterType, v3.ListenerType, v3.NameTableType},
		meta:  func(m *model.NodeMetadata) { m.DNSCapture = true; m.DNSAutoAllocate = true }},
}

func (cs clientSpec) node() *core.Node {
	m := &model.NodeMetadata{
		Namespace:    cs.ns,
		Labels:       cs.labels,
		ClusterID:    "Kubernetes",
		IstioVersion: "1.30.0",
	}
	if cs.meta != nil {
		cs.meta(m)
	}
	return &core.Node{Id: cs.nodeID, Metadata: m.ToStruct(), Locality: cs.locality}
}

func (cs clientSpec) build(delta bool) *xdsClient {
	roots := cs.roots
	if roots == nil {
		roots = []string{v3.ClusterType, v3.ListenerType}
	}
	name := cs.name
	if delta {
		name += "-delta"
	}
	return newXdsClient(name, cs.node(), delta, roots)
}

// pickClients draws 1..max clients from the menu.
func pickClients(tp *engine.Tape, max int, allowDelta bool) []*xdsClient {
	n := 1 + tp.Choose(max, "nclients")
	used := map[int]bool{}
	var out []*xdsClient
	for len(out) < n {
		i := tp.Choose(len(clientMenu), "client")
		if used[i] {
			i = (i + 1) % len(clientMenu)
			if used[i] {
				break
			}
		}
		used[i] = true
		delta := allowDelta && tp.Bool(1, 3, "delta")
		out = append(out, clientMenu[i].build(delta))
	}
	return out
}

type debounceCfg struct{ after, max time.Duration }

func pickDebounce(tp *engine.Tape) debounceCfg {
	opts := []debounceCfg{{10 * time.Millisecond, 50 * time.Millisecond}, {100 * time.Millisecond, time.Second}, {100 * time.Millisecond, 10 * time.Second}, {time.Millisecond, time.Millisecond}}
	return opts[tp.Choose(len(opts), "debounce")]
}

// gap advances time between two mutations so that every batching into pushes is reachable.
func (w *wis) gap(tp *engine.Tape, d debounceCfg) {
	switch tp.Choose(5, "gap") {
	case 0:
		w.advance(time.Microsecond)
	case 1:
		w.advance(d.after / 3)
	case 2:
		w.advance(d.after + time.Millisecond)
	case 3:
		w.advance(d.max + d.after + time.Millisecond)
	case 4:
		// just inside the window: the next write (which ticks the clock by 1 us) lands 1 us before the timer
		w.advance(d.after - 2*time.Microsecond)
	}
}

// deliverSome performs up to k randomly chosen deliveries (responses or requests).
func (w *wis) deliverSome(tp *engine.Tape, k int) {
	for i := 0; i < k; i++ {
		var acts []string
		for ci, c := range w.clients {
			if w.hasParkedSend(c) {
				acts = append(acts, fmt.Sprintf("resp:%d", ci))
			}
			if w.canDeliverReq(c) {
				acts = append(acts, fmt.Sprintf("req:%d", ci))
			}
		}
		if len(acts) == 0 {
			return
		}
		a := acts[tp.Choose(len(acts), "deliver")]
		tp.Note(a)
		var ci int
		if _, err := fmt.Sscanf(a, "resp:%d", &ci); err == nil {
			w.deliverResp(w.clients[ci])
		} else {
			fmt.Sscanf(a, "req:%d", &ci)
			w.deliverReq(w.clients[ci])
		}
		w.r.Steps++
	}
}

// checkpointFresh quiesces and compares every client with a fresh replica built from the current state.
func (w *wis) checkpointFresh(class string, after string, tags string) {
	if !w.quiesce(w.inst, w.clients) {
		w.r.Inconclusive = "no quiescence at checkpoint " + after
		w.r.Probe("no_quiescence")
		return
	}
	o := w.inst.opts
	o.configs = w.inst.snapshotConfigs()
	fresh, ok := w.freshViews(o, w.clients)
	if !ok {
		w.r.Inconclusive = "fresh replica did not quiesce"
		return
	}
	w.r.Probe("checkpoints")
	for _, c := range w.clients {
		if !c.connected {
			continue
		}
		got := c.heldView()
		d := diffViews(got, fresh[c.name])
		w.r.Probe("resources_compared")
		if len(d) > 0 {
			n := len(c.recvLog)
			for i := max(0, n-8); i < n; i++ {
				e := c.recvLog[i]
				w.r.Logf("  %s recv[%d] step=%d %s nonce=%s names=%d accepted=%v", c.name, i, e.step, shortType(e.typeURL), e.nonce[:min(8, len(e.nonce))], len(e.names), e.accepted)
			}
			key := tags + "|" + d[0].typ + ":" + d[0].kind
			if d[0].field != "" {
				key += ":" + d[0].field
			}
			w.r.Fail(class, key, "after %s: client %s differs from a fresh control plane:%s", after, c.name, fmtDiffs(d))
			return
		}
	}
}

func runC01(t *testing.T, r *engine.Run) {
	tp := r.T
	bubbleInit()
	db := pickDebounce(tp)
	inst := newWisInstance(t, "main", wisOpts{debounceAfter: db.after, debounceMax: db.max})
	defer func() {
		inst.Close()
		synctest.Wait()
	}()
	w := newWis(t, r, inst)
	defer w.cancel()
	for _, c := range pickClients(tp, 3, false) { // SotW only: delta clients are compared with SotW ones under C03
		w.addClient(c)
	}
	for _, c := range w.clients {
		w.connect(c, inst, false)
	}
	if !w.quiesce(inst, w.clients) {
		r.Inconclusive = "no initial quiescence"
		return
	}
	wd := newWorld(tp, nil)
	defer func() {
		if wd.raced {
			r.Probe("pushrace_tagged_run")
		}
	}()
	nmut := 2 + tp.Choose(14, "nmut")
	if tier == "thorough" {
		nmut = 2 + tp.Choose(30, "nmut2")
	}
	prefix := tp.Bool(1, 2, "prefixMode")
	r.Config["prefix"] = fmt.Sprint(prefix)
	r.Config["debounce"] = fmt.Sprint(db)
	r.Logf("clients=%v kinds=%v debounce=%v prefix=%v", clientNames(w.clients), wd.kinds, db, prefix)
	for i := 0; i < nmut && !r.Failed() && !tp.Exhausted(); i++ {
		m := wd.next(tp)
		before := respCounts(w.clients)
		if err := m.apply(inst); err != nil {
			r.Logf("mutation %s failed: %v", m.desc, err)
			continue
		}
		synctest.Wait()
		r.Steps++
		tp.Note("mut:" + m.kind)
		r.Logf("t=%v %s", w.now(), m.desc)
		w.gap(tp, db)
		w.deliverSome(tp, tp.Choose(6, "ndeliver"))
		if prefix || i == nmut-1 {
			w.checkpointFresh("c01.not_converged", m.desc, wd.everTags())
			if prefix {
				// non-trivial: this change was skipped for some client or some subscribed root type
				after := respCounts(w.clients)
				for k, v := range after {
					if v == before[k] {
						r.NonTriv = true
						r.Probe("push_skipped_or_narrowed")
						break
					}
				}
			}
		}
	}
	if !prefix && !r.Failed() {
		w.checkpointFresh("c01.not_converged", "end of history", wd.everTags())
	}
	for _, c := range w.clients {
		w.cut(c)
	}
}

func clientNames(cs []*xdsClient) []string {
	var out []string
	for _, c := range cs {
		out = append(out, c.name)
	}
	return out
}

// respCounts returns responses received per client and root type.
func respCounts(cs []*xdsClient) map[string]int {
	out := map[string]int{}
	for _, c := range cs {
		for _, t := range c.roots {
			if s := c.sub[t]; s != nil {
				out[c.name+"/"+shortType(t)] = s.responses
			} else {
				out[c.name+"/"+shortType(t)] = 0
			}
		}
	}
	return out
}
