// Package worker is the simulation worker: a test binary (testing/synctest needs a
// *testing.T) that executes simulated runs of one check in this process and reports
// one JSON line per run. The orchestrator (bin/check) fans seeds out to many workers.
package worker

import (
	"encoding/json"
	"fmt"
	"os"
	"runtime"
	"runtime/debug"
	"sort"
	"strconv"
	"strings"
	"sync/atomic"
	"testing"
	"testing/synctest"
	"time"

	"verif/sim/engine"
)

// CheckFunc executes one simulated run inside a synctest bubble.
type CheckFunc func(t *testing.T, r *engine.Run)

type checkDef struct {
	Property string
	Fn       CheckFunc
	// NoBubble: the check creates its own bubble(s) (e.g. needs values drawn before entering).
	NoBubble bool
}

var checks = map[string]checkDef{}

func register(name, property string, fn CheckFunc) {
	checks[name] = checkDef{Property: property, Fn: fn}
}

func envInt(name string, def int64) int64 {
	v := os.Getenv(name)
	if v == "" {
		return def
	}
	n, err := strconv.ParseInt(v, 10, 64)
	if err != nil {
		fmt.Fprintf(os.Stderr, "bad %s=%q\n", name, v)
		os.Exit(2)
	}
	return n
}

func envU64(name string, def uint64) uint64 {
	v := os.Getenv(name)
	if v == "" {
		return def
	}
	n, err := strconv.ParseUint(v, 10, 64)
	if err != nil {
		// allow negative ints
		m, err2 := strconv.ParseInt(v, 10, 64)
		if err2 != nil {
			fmt.Fprintf(os.Stderr, "bad %s=%q\n", name, v)
			os.Exit(2)
		}
		return uint64(m)
	}
	return n
}

var tier = "quick"

// watchdog: real-time cap per run, armed outside any bubble.
var wdDeadline atomic.Int64 // unix nanos, 0 = disarmed
var wdInfo atomic.Value

func startWatchdog() {
	go func() {
		for {
			time.Sleep(200 * time.Millisecond)
			d := wdDeadline.Load()
			if d != 0 && time.Now().UnixNano() > d {
				buf := make([]byte, 1<<22)
				n := runtime.Stack(buf, true)
				fmt.Fprintf(os.Stderr, "@@WATCHDOG %v\n%s\n", wdInfo.Load(), buf[:n])
				fmt.Printf("@@WATCHDOG %v\n", wdInfo.Load())
				os.Exit(3)
			}
		}
	}()
}

func emit(tag string, v any) {
	b, _ := json.Marshal(v)
	fmt.Printf("@@%s %s\n", tag, b)
	os.Stdout.Sync()
}

// tapeLog, when set, receives every choice as it is made so that a crashed run's tape survives.
var tapeLogPath = os.Getenv("VERIF_TAPE_LOG")

func TestWorker(t *testing.T) {
	name := os.Getenv("VERIF_CHECK")
	if name == "" {
		t.Skip("VERIF_CHECK not set")
	}
	if name == "list" {
		var ks []string
		for k := range checks {
			ks = append(ks, k)
		}
		sort.Strings(ks)
		fmt.Printf("@@CHECKS %s\n", strings.Join(ks, " "))
		return
	}
	def, ok := checks[name]
	if !ok {
		fmt.Fprintf(os.Stderr, "unknown check %q\n", name)
		os.Exit(2)
	}
	if v := os.Getenv("VERIF_TIER"); v != "" {
		tier = v
	}
	debug.SetTraceback("all")
	startWatchdog()
	perRunCap := time.Duration(envInt("VERIF_RUN_CAP_S", 120)) * time.Second
	outDir := os.Getenv("VERIF_OUT")
	if outDir == "" {
		outDir = "."
	}
	wantTrace := os.Getenv("VERIF_TRACE") != ""

	if rp := os.Getenv("VERIF_REPLAY"); rp != "" {
		rf, err := engine.ReadReplay(rp)
		if err != nil {
			fmt.Fprintf(os.Stderr, "cannot read replay: %v\n", err)
			os.Exit(2)
		}
		var tape *engine.Tape
		if rf.Tape == nil {
			tape = engine.NewTape(engine.Mix(rf.Seed, uint64(rf.Run)))
		} else {
			tape = engine.NewReplayTape(rf.Tape)
		}
		res := runOne(t, name, def, rf.Seed, rf.Run, tape, perRunCap, true)
		if !wantTrace {
			res.Sample = nil
		}
		emit("RESULT", res)
		return
	}

	seed := envU64("VERIF_SEED", 1)
	from := int(envInt("VERIF_RUN_FROM", 0))
	count := int(envInt("VERIF_RUN_COUNT", 1))
	deadline := time.Now().Add(time.Duration(envInt("VERIF_DEADLINE_S", 3600)) * time.Second)
	sampleEvery := int(envInt("VERIF_SAMPLE_EVERY", 0))
	maxViol := int(envInt("VERIF_MAX_VIOL", 3))
	nviol := 0
	for i := 0; i < count; i++ {
		if time.Now().After(deadline) {
			break
		}
		run := from + i
		tape := engine.NewTape(engine.Mix(seed, uint64(run)))
		keep := wantTrace || (sampleEvery > 0 && i%sampleEvery == 0)
		res := runOne(t, name, def, seed, run, tape, perRunCap, keep)
		if res.Violation != nil {
			nviol++
			rf := &engine.ReplayFile{
				Property: def.Property, Check: name, Seed: seed, Run: run,
				Tape: tape.Values(), Violation: res.Violation, Trace: res.Sample,
			}
			p := fmt.Sprintf("%s/%s-%d-%d.json", outDir, name, seed, run)
			if err := engine.WriteReplay(p, rf); err != nil {
				fmt.Fprintf(os.Stderr, "cannot write replay: %v\n", err)
				os.Exit(2)
			}
			res.ReplayPath = p
		}
		if !keep {
			res.Sample = nil
		}
		emit("RESULT", res)
		if nviol >= maxViol {
			break
		}
	}
	emit("DONE", map[string]any{"from": from, "count": count})
}

func runOne(t *testing.T, name string, def checkDef, seed uint64, run int, tape *engine.Tape, cap time.Duration, keepTrace bool) *engine.RunResult {
	emit("RUN", map[string]any{"check": name, "seed": seed, "run": run})
	wdInfo.Store(fmt.Sprintf("check=%s seed=%d run=%d", name, seed, run))
	wdDeadline.Store(time.Now().Add(cap).UnixNano())
	defer wdDeadline.Store(0)

	if tapeLogPath != "" {
		f, err := os.OpenFile(tapeLogPath, os.O_CREATE|os.O_TRUNC|os.O_WRONLY, 0o644)
		if err == nil {
			tape.Log = f
			defer f.Close()
		}
	}

	r := engine.NewRun(tape)
	r.KeepTrace = keepTrace
	var simNs int64
	completed := false
	func() {
		defer func() {
			if p := recover(); p != nil {
				msg := fmt.Sprint(p)
				if strings.Contains(msg, "deadlock: main bubble goroutine has exited but blocked goroutines remain") {
					// leftover system goroutines of a finished run: not an error.
					r.Probe("leftover_goroutines")
					return
				}
				// any other panic on the driver goroutine is fatal: let the orchestrator see a crash.
				fmt.Fprintf(os.Stderr, "@@DRIVERPANIC %v\n%s\n", p, debug.Stack())
				os.Exit(4)
			}
		}()
		if def.NoBubble {
			def.Fn(t, r)
			completed = true
			return
		}
		synctest.Test(t, func(t *testing.T) {
			t0 := time.Now()
			def.Fn(t, r)
			simNs = int64(time.Since(t0))
			completed = true
		})
	}()
	res := &engine.RunResult{
		Check: name, Seed: seed, Run: run, Steps: r.Steps, SimTimeNs: simNs,
		Faults: r.Faults, Probes: r.Probes, Sig: tape.Signature(), NonTrivial: r.NonTriv,
		States: r.StateList(), Violation: r.Viol, TapeLen: len(tape.Rec), Sample: r.Trace,
		Inconclusive: r.Inconclusive, Digest: r.Digest,
	}
	if !completed && res.Violation == nil {
		res.Inconclusive = "run did not complete (t.Fatal/Goexit in harness): " + res.Inconclusive
	}
	return res
}
