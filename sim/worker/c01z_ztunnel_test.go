package worker

import (
	"context"
	"fmt"
	"testing"
	"testing/synctest"
	"time"

	core "github.com/envoyproxy/go-control-plane/envoy/config/core/v3"
	corev1 "k8s.io/api/core/v1"
	discoveryv1 "k8s.io/api/discovery/v1"
	metav1 "k8s.io/apimachinery/pkg/apis/meta/v1"
	"k8s.io/apimachinery/pkg/runtime"

	securityapi "istio.io/api/security/v1beta1"
	typev1beta1 "istio.io/api/type/v1beta1"
	securityclient "istio.io/client-go/pkg/apis/security/v1"
	"istio.io/istio/pilot/pkg/features"
	"istio.io/istio/pilot/pkg/model"
	v3 "istio.io/istio/pilot/pkg/xds/v3"
	"verif/sim/engine"
)

// c01z: ambient node proxy (ztunnel) on the whole-istiod simulation with the ambient index enabled. A ztunnel model
// (delta, wildcard, types Address and WorkloadAuthorization) follows a Kubernetes cluster history (pods, services,
// slices, AuthorizationPolicies) through stream cuts and reconnects that present initial_resource_versions; at the end
// the delta-accumulated set must equal what a fresh ztunnel gets from a cold-started control plane on the final objects
// (C01 for ztunnel types, C03's "no SotW form" clause, C05's initial_resource_versions clause).

func init() {
	register("c01z", "C01", func(t *testing.T, r *engine.Run) { runZtunnel(t, r, false) })
	// c05z: the same world driven for C05's ztunnel clause. The mix is biased to cuts and reconnects, and every run ends
	// with: cut, 0-3 cluster steps that the ztunnel misses (often deletions only), reconnect presenting what it
	// retained (initial_resource_versions), quiescence, comparison with a fresh ztunnel on a cold-started control
	// plane. Nothing happens after the last reconnect, so no later push can repair a wrong reconnect response.
	register("c05z", "C05", func(t *testing.T, r *engine.Run) { runZtunnel(t, r, true) })
}

func ztunnelClient(name string) *xdsClient {
	m := &model.NodeMetadata{Namespace: "istio-system", NodeName: "n1", ClusterID: "Kubernetes", IstioVersion: "1.30.0"}
	node := &core.Node{Id: "ztunnel~10.5.0.1~" + name + ".istio-system~istio-system.svc.cluster.local", Metadata: m.ToStruct()}
	c := newXdsClient(name, node, true, []string{v3.AddressType, v3.WorkloadAuthorizationType})
	c.deriveDeps = false
	return c
}

func runZtunnel(t *testing.T, r *engine.Run, reconnectMode bool) {
	tp := r.T
	failClass := "c01z.ztunnel_differs_from_cold_start"
	cutBelow := 8 // of 10: actions 7 is cut/reconnect
	stepBelow := 6
	if reconnectMode {
		failClass = "c05z.ztunnel_not_resynchronised"
		stepBelow = 4
	}
	_ = cutBelow
	bubbleInit()
	prevA := features.EnableAmbient
	features.EnableAmbient = true
	defer func() { features.EnableAmbient = prevA }()
	db := debounceCfg{after: 10 * time.Millisecond, max: 50 * time.Millisecond}
	k := &kCluster{tp: tp, ns: "a", pods: map[string]*kPod{}, svcs: map[string]*kSvc{}, slices: map[string]*discoveryv1.EndpointSlice{},
		rule: map[string]int{}, q: map[string][]kEvent{}, ctime: metav1.NewTime(wlT0)}
	nsObj := &corev1.Namespace{ObjectMeta: metav1.ObjectMeta{Name: "a", Labels: map[string]string{"istio.io/dataplane-mode": "ambient"}}}
	sysNs := &corev1.Namespace{ObjectMeta: metav1.ObjectMeta{Name: "istio-system"}}
	var nodes []runtime.Object
	for i, n := range []string{"n1", "n2"} {
		nodes = append(nodes, &corev1.Node{ObjectMeta: metav1.ObjectMeta{Name: n, Labels: map[string]string{
			"topology.kubernetes.io/region": fmt.Sprintf("region%d", i+1), "topology.kubernetes.io/zone": fmt.Sprintf("zone%d", i+1)}}})
	}
	base := append([]runtime.Object{nsObj, sysNs}, nodes...)
	inst := newWisInstance(t, "main", wisOpts{debounceAfter: db.after, debounceMax: db.max, kubeObjects: base})
	defer func() {
		inst.Close()
		synctest.Wait()
	}()
	w := newWis(t, r, inst)
	defer w.cancel()
	c := ztunnelClient("zt")
	w.addClient(c)
	w.connect(c, inst, false)
	if !w.quiesce(inst, w.clients) {
		r.Inconclusive = "no initial quiescence"
		return
	}
	policies := map[string]*securityclient.AuthorizationPolicy{}
	nsteps := 6 + tp.Choose(30, "zsteps")
	away := false
	meshV := 0
	clusterStep := func() {
		for ty := range k.q {
			k.q[ty] = nil
		}
		k.step()
		onlyDeletes := true
		for _, ty := range []string{"svc", "pod", "slice"} {
			for _, ev := range k.q[ty] {
				if err := applyK8s(inst, k.ns, ev); err != nil {
					r.Logf("apply %s failed: %v", ev.desc, err)
				} else {
					r.Logf("%s", ev.desc)
				}
				if ev.verb != "delete" {
					onlyDeletes = false
				}
				tp.Note(ty + ":" + ev.verb)
			}
		}
		synctest.Wait()
		if away {
			r.Probe("change_while_ztunnel_disconnected")
			if onlyDeletes {
				r.Probe("deletion_only_step_while_disconnected")
			}
			r.NonTriv = true
		}
	}
	for i := 0; i < nsteps && !r.Failed(); i++ {
		r.Steps++
		switch a := tp.Choose(10, "zact"); {
		case a < stepBelow: // one cluster step, its events applied in causal order
			clusterStep()
		case a < stepBelow+1: // AuthorizationPolicy create / update / delete through the API server
			name := []string{"ap1", "ap2"}[tp.Choose(2, "apname")]
			api := inst.fds.KubeClient().Istio().SecurityV1().AuthorizationPolicies("a")
			if p, ok := policies[name]; ok && tp.Bool(1, 2, "apdel") {
				_ = api.Delete(context.Background(), p.Name, metav1.DeleteOptions{})
				delete(policies, name)
				r.Logf("delete AuthorizationPolicy %s", name)
			} else {
				p := &securityclient.AuthorizationPolicy{ObjectMeta: metav1.ObjectMeta{Name: name, Namespace: "a"},
					Spec: securityapi.AuthorizationPolicy{
						Action: securityapi.AuthorizationPolicy_Action(tp.Choose(2, "apaction")),
						Rules:  []*securityapi.Rule{{From: []*securityapi.Rule_From{{Source: &securityapi.Source{Principals: []string{"cluster.local/ns/a/sa/sa" + fmt.Sprint(1+tp.Choose(2, "p"))}}}}}},
					}}
				if tp.Bool(1, 2, "apsel") {
					p.Spec.Selector = &typev1beta1.WorkloadSelector{MatchLabels: map[string]string{"app": []string{"svc1", "svc2"}[tp.Choose(2, "apapp")]}}
				}
				if _, ok := policies[name]; ok {
					_, _ = api.Update(context.Background(), p, metav1.UpdateOptions{})
				} else {
					_, _ = api.Create(context.Background(), p, metav1.CreateOptions{})
				}
				policies[name] = p
				r.Logf("apply AuthorizationPolicy %s action=%v selector=%v", name, p.Spec.Action, p.Spec.Selector)
			}
			synctest.Wait()
		case a < 8 || (reconnectMode && a < 9 && tp.Bool(1, 2, "morecuts")): // transport fault / reconnect with retained state
			if c.connected {
				r.Fault("stream_cut")
				r.Logf("ztunnel stream cut (parked send=%v)", w.hasParkedSend(c))
				w.cut(c)
				away = true
			} else {
				r.Fault("client_reconnect")
				held := 0
				for _, s := range c.sub {
					held += len(s.held)
				}
				c.presentNonce = tp.Bool(1, 3, "presentNonce")
				r.Logf("ztunnel reconnects presenting %d initial_resource_versions (old nonce presented=%v)", held, c.presentNonce)
				w.connect(c, inst, false)
				away = false
			}
		case a < 9 || !tp.Bool(1, 2, "meshreload"):
			w.gap(tp, db)
		default: // mesh configuration reload: a forced global push, merged by the debouncer with whatever comes next
			meshV = (meshV + 1 + tp.Choose(7, "meshvariant")) % 8
			inst.setMesh(meshV)
			r.Logf("mesh configuration reload (variant %d): forced push", meshV)
			r.Fault("forced_push")
			synctest.Wait()
		}
		w.deliverSome(tp, tp.Choose(5, "ndeliver"))
		w.reapStream(c)
	}
	if reconnectMode && !r.Failed() {
		// the closing act: whatever state the stream is in (responses parked, requests queued), it is cut, the cluster
		// moves on without the ztunnel, and the ztunnel comes back with what it retained
		if c.connected {
			if w.quiesceBeforeLastCut(tp, inst) {
				r.Probe("last_cut_at_quiet_point")
			}
			r.Fault("stream_cut")
			r.Logf("ztunnel stream cut (parked send=%v)", w.hasParkedSend(c))
			w.cut(c)
			w.reapStream(c)
			away = true
		}
		for n := tp.Choose(4, "missed"); n > 0; n-- {
			clusterStep()
		}
		w.gap(tp, db)
		c.presentNonce = tp.Bool(1, 3, "presentNonce")
		held := 0
		for _, s := range c.sub {
			held += len(s.held)
		}
		r.Logf("ztunnel reconnects presenting %d initial_resource_versions (old nonce presented=%v)", held, c.presentNonce)
		r.Fault("client_reconnect")
		w.connect(c, inst, false)
		away = false
	}
	if !c.connected {
		r.Fault("client_reconnect")
		w.connect(c, inst, false)
	}
	if !w.quiesce(inst, w.clients) {
		r.Inconclusive = "no final quiescence"
		return
	}
	// cold start on the final objects
	final := append([]runtime.Object(nil), base...)
	kc := inst.fds.KubeClient().Kube()
	ctx := context.Background()
	if l, err := kc.CoreV1().Services("a").List(ctx, metav1.ListOptions{}); err == nil {
		for i := range l.Items {
			final = append(final, l.Items[i].DeepCopy())
		}
	}
	if l, err := kc.CoreV1().Pods("a").List(ctx, metav1.ListOptions{}); err == nil {
		for i := range l.Items {
			final = append(final, l.Items[i].DeepCopy())
		}
	}
	if l, err := kc.DiscoveryV1().EndpointSlices("a").List(ctx, metav1.ListOptions{}); err == nil {
		for i := range l.Items {
			final = append(final, l.Items[i].DeepCopy())
		}
	}
	for _, p := range policies {
		final = append(final, p.DeepCopy())
	}
	for _, o := range final {
		if m, ok := o.(metav1.Object); ok {
			m.SetResourceVersion("")
		}
	}
	cold := newWisInstance(t, "cold", wisOpts{debounceAfter: db.after, debounceMax: db.max, kubeObjects: final, meshVariant: meshV})
	cw := newWis(t, r, cold)
	cc := ztunnelClient("zt")
	cw.addClient(cc)
	cw.connect(cc, cold, false)
	ok := cw.quiesce(cold, cw.clients)
	coldView := cc.heldView()
	cw.cut(cc)
	cw.cancel()
	cold.Close()
	synctest.Wait()
	if !ok {
		r.Inconclusive = "cold instance did not quiesce"
		return
	}
	r.Probe("checkpoints")
	n := 0
	for _, m := range coldView {
		n += len(m)
	}
	if n > 0 {
		r.Probe("nonempty_snapshots")
	}
	if d := diffViews(c.heldView(), coldView); len(d) > 0 {
		for _, l := range c.sentLog[max(0, len(c.sentLog)-6):] {
			r.Logf("  sent: %s", l)
		}
		nr := len(c.recvLog)
		for i := max(0, nr-6); i < nr; i++ {
			e := c.recvLog[i]
			r.Logf("  recv[%d] %s names=%v removed=%v", i, shortType(e.typeURL), e.names, e.removed)
		}
		r.Fail(failClass, d[0].typ+":"+d[0].kind, "ztunnel (%d streams) differs from a fresh ztunnel on a cold-started control plane:%s", c.streams, fmtDiffs(d))
		return
	}
	w.cut(c)
}

// quiesceBeforeLastCut lets, in half of the runs, the ztunnel catch up completely before the last cut, so that the
// versions it presents afterwards are the current ones and the only thing it missed is what happens while it is away.
func (w *wis) quiesceBeforeLastCut(tp *engine.Tape, inst *wisInstance) bool {
	if !tp.Bool(1, 2, "catchUpBeforeCut") {
		return false
	}
	return w.quiesce(inst, w.clients)
}
