package worker

import (
	"context"
	"fmt"
	"os"
	"strings"
	"sync"
	"testing"
	"testing/synctest"
	"time"

	core "github.com/envoyproxy/go-control-plane/envoy/config/core/v3"
	tlsv3 "github.com/envoyproxy/go-control-plane/envoy/extensions/transport_sockets/tls/v3"
	discovery "github.com/envoyproxy/go-control-plane/envoy/service/discovery/v3"
	authorizationv1 "k8s.io/api/authorization/v1"
	corev1 "k8s.io/api/core/v1"
	metav1 "k8s.io/apimachinery/pkg/apis/meta/v1"
	"k8s.io/apimachinery/pkg/runtime"
	"k8s.io/client-go/kubernetes/fake"
	k8stesting "k8s.io/client-go/testing"

	networking "istio.io/api/networking/v1alpha3"
	"istio.io/istio/pilot/pkg/features"
	"istio.io/istio/pilot/pkg/model"
	v3 "istio.io/istio/pilot/pkg/xds/v3"
	"istio.io/istio/pkg/config"
	"istio.io/istio/pkg/config/schema/gvk"
	kubelib "istio.io/istio/pkg/kube"
	"istio.io/istio/pkg/security"
	"verif/sim/engine"
)

// C11: entitlement of secrets (DESIGN 4.7). Several xDS clients with every combination of claimed identity (node
// metadata) and credential identities share one control plane and one SDS cache; Kubernetes Secrets in three
// namespaces; SubjectAccessReview answers are owned by the simulator and flipped between requests. Oracle on EVERY
// SDS resource handed to the transport: private-key material only for an authenticated stream whose claim matches a
// credential identity, for a name in the verified namespace, and only if the most recent SubjectAccessReview answer
// the control plane obtained for that identity was "allowed".

func init() { register("c11", "C11", runC11) }

type c11Party struct {
	c        *xdsClient
	ns, sa   string   // claimed in node metadata
	ids      []string // credential identities (nil = unauthenticated)
	tls      bool
	matching bool   // the claim matches one of the credential identities
	verified string // namespace/sa the credential proves (when matching)
}

func runC11(t *testing.T, r *engine.Run) {
	tp := r.T
	bubbleInit()
	prevID := features.EnableXDSIdentityCheck
	features.EnableXDSIdentityCheck = true
	defer func() { features.EnableXDSIdentityCheck = prevID }()

	// ---- SubjectAccessReview stub
	var sarMu sync.Mutex
	sarPolicy := map[string]string{}   // user -> allow | deny | error (what the stub answers next)
	sarLast := map[string]string{}     // user -> last answer actually given
	sarSince := map[string]time.Time{} // user -> when the stub's answer for the user last changed
	sarUser := func(ns, sa string) string { return "system:serviceaccount:" + ns + ":" + sa }
	modifier := func(c kubelib.Client) {
		c.Kube().(*fake.Clientset).Fake.PrependReactor("create", "subjectaccessreviews", func(action k8stesting.Action) (bool, runtime.Object, error) {
			sar := action.(k8stesting.CreateAction).GetObject().(*authorizationv1.SubjectAccessReview)
			sarMu.Lock()
			defer sarMu.Unlock()
			p := sarPolicy[sar.Spec.User]
			if p == "" {
				p = "deny"
			}
			sarLast[sar.Spec.User] = p
			if p == "error" {
				return true, nil, fmt.Errorf("simulated API server failure")
			}
			return true, &authorizationv1.SubjectAccessReview{Status: authorizationv1.SubjectAccessReviewStatus{Allowed: p == "allow"}}, nil
		})
	}
	var objs []runtime.Object
	mkSecret := func(ns, name string, gen int) *corev1.Secret {
		return &corev1.Secret{ObjectMeta: metav1.ObjectMeta{Name: name, Namespace: ns}, Type: corev1.SecretTypeTLS, Data: map[string][]byte{
			"tls.crt": []byte(fmt.Sprintf("CERT %s/%s gen%d", ns, name, gen)), "tls.key": []byte(fmt.Sprintf("KEY %s/%s gen%d", ns, name, gen)),
			"ca.crt": []byte(fmt.Sprintf("CA %s/%s gen%d", ns, name, gen))}}
	}
	for _, ns := range []string{"a", "b", "istio-system"} {
		objs = append(objs, &corev1.Namespace{ObjectMeta: metav1.ObjectMeta{Name: ns}})
		objs = append(objs, mkSecret(ns, "s1", 0), mkSecret(ns, "s2", 0), mkSecret(ns, "s1-cacert", 0))
		objs = append(objs, &corev1.ConfigMap{ObjectMeta: metav1.ObjectMeta{Name: "cm1", Namespace: ns}, Data: map[string]string{"ca.crt": "CACM " + ns}})
	}
	// Gateway stratum: in every namespace a Gateway selects the routers and names secret s1 of its own namespace in
	// credentialName. Being referenced by a Gateway is not an authorisation: a kubernetes:// secret still needs the
	// SubjectAccessReview of the requester (only kubernetes-gateway:// references are granted by reference).
	var gwCfgs []config.Config
	if tp.Bool(1, 2, "gateways") {
		for _, ns := range []string{"a", "b", "istio-system"} {
			gwCfgs = append(gwCfgs, config.Config{
				Meta: config.Meta{GroupVersionKind: gvk.Gateway, Name: "gw", Namespace: ns, CreationTimestamp: wlT0},
				Spec: &networking.Gateway{Selector: map[string]string{"istio": "ingressgateway"}, Servers: []*networking.Server{{
					Port: &networking.Port{Number: 443, Name: "https", Protocol: "HTTPS"}, Hosts: []string{ns + ".example.com"},
					Tls: &networking.ServerTLSSettings{Mode: networking.ServerTLSSettings_SIMPLE, CredentialName: "s1"}}}},
			})
		}
		r.Probe("gateways_reference_secrets")
	}
	inst := newWisInstance(t, "main", wisOpts{debounceAfter: 10 * time.Millisecond, debounceMax: 50 * time.Millisecond, kubeObjects: objs, kubeModifier: modifier, configs: gwCfgs})
	defer func() {
		inst.Close()
		synctest.Wait()
	}()
	inst.fds.Discovery.Authenticators = []security.Authenticator{simAuthenticator{}}
	w := newWis(t, r, inst)
	defer w.cancel()

	// ---- parties
	nparties := 2 + tp.Choose(3, "nparties")
	var parties []*c11Party
	for i := 0; i < nparties; i++ {
		ns := []string{"a", "b", "istio-system"}[tp.Choose(3, "claimNs")]
		sa := []string{"gw-sa", "other-sa"}[tp.Choose(2, "claimSa")]
		p := &c11Party{ns: ns, sa: sa, tls: true}
		switch tp.Choose(7, "cred") {
		case 0, 1: // matching credential
			p.ids = []string{fmt.Sprintf("spiffe://cluster.local/ns/%s/sa/%s", ns, sa)}
			p.matching = true
		case 2: // credential of another namespace
			other := map[string]string{"a": "b", "b": "a", "istio-system": "a"}[ns]
			p.ids = []string{fmt.Sprintf("spiffe://cluster.local/ns/%s/sa/%s", other, sa)}
		case 3: // credential of another service account
			p.ids = []string{fmt.Sprintf("spiffe://cluster.local/ns/%s/sa/%s", ns, "intruder")}
		case 4: // unparsable plus a matching one
			p.ids = []string{"not-a-spiffe-id", fmt.Sprintf("spiffe://cluster.local/ns/%s/sa/%s", ns, sa)}
			p.matching = true
		case 5: // TLS but the authenticator finds no credential
			p.ids = nil
		case 6: // plaintext, unauthenticated
			p.tls = false
		}
		if p.matching {
			p.verified = ns + "/" + sa
		}
		m := &model.NodeMetadata{Namespace: ns, ServiceAccount: sa, Labels: map[string]string{"istio": "ingressgateway"}, ClusterID: "Kubernetes", IstioVersion: "1.30.0"}
		node := &core.Node{Id: fmt.Sprintf("router~10.3.2.%d~gw-%d.%s~%s.svc.cluster.local", i+1, i, ns, ns), Metadata: m.ToStruct()}
		c := newXdsClient(fmt.Sprintf("p%d[%s/%s]", i, ns, sa), node, false, []string{v3.SecretType})
		c.deriveDeps = false
		c.tls, c.identities = p.tls, p.ids
		p.c = c
		parties = append(parties, p)
		w.addClient(c)
		r.Logf("party %s tls=%v credential=%v matching=%v", c.name, p.tls, p.ids, p.matching)
	}
	for _, ns := range []string{"a", "b", "istio-system"} {
		for _, sa := range []string{"gw-sa", "other-sa"} {
			sarPolicy[sarUser(ns, sa)] = []string{"allow", "deny", "deny", "error"}[tp.Choose(4, "sar")]
		}
	}
	nameUniverse := []string{
		"kubernetes://s1", "kubernetes://s2", "kubernetes://s1-cacert", "kubernetes://a/s1", "kubernetes://b/s1", "kubernetes://istio-system/s2",
		"kubernetes://a/s1/x-cacert", "kubernetes://b/s2/y-cacert", "kubernetes-gateway://a/s1", "kubernetes-gateway://b/s2", "configmap://a/cm1",
		"kubernetes://", "kubernetes:///s1", "kubernetes://a/", "file-cert:/etc/x~/etc/y", "s1", "kubernetes://a/s1-cacert",
		// segments after namespace/name
		"kubernetes://a/s1-cacert/x", "kubernetes://b/s1-cacert/x", "kubernetes://istio-system/s1-cacert/y/z", "kubernetes://a/s2/x",
	}
	pickNames := func() map[string]struct{} {
		out := map[string]struct{}{}
		n := 1 + tp.Choose(3, "nnames")
		for i := 0; i < n; i++ {
			out[nameUniverse[tp.Choose(len(nameUniverse), "sdsname")]] = struct{}{}
		}
		return out
	}
	byClient := map[*xdsClient]*c11Party{}
	for _, p := range parties {
		byClient[p.c] = p
		p.c.state(v3.SecretType).names = pickNames()
	}
	if os.Getenv("VERIF_C11_FIXED") != "" && len(parties) >= 2 {
		// debugging aid: the textbook warm-cache scenario (entitled party first, then a denied one, same explicit name)
		for i, p := range parties[:2] {
			p.ns, p.sa, p.tls, p.matching = "b", []string{"gw-sa", "other-sa"}[i], true, true
			p.ids = []string{"spiffe://cluster.local/ns/b/sa/" + p.sa}
			m := &model.NodeMetadata{Namespace: p.ns, ServiceAccount: p.sa, Labels: map[string]string{"istio": "ingressgateway"}, ClusterID: "Kubernetes", IstioVersion: "1.30.0"}
			p.c.node = &core.Node{Id: fmt.Sprintf("router~10.3.2.%d~gwf-%d.b~b.svc.cluster.local", i+1, i), Metadata: m.ToStruct()}
			p.c.tls, p.c.identities = true, p.ids
			p.c.state(v3.SecretType).names = map[string]struct{}{"kubernetes://b/s1": {}}
		}
		sarPolicy[sarUser("b", "gw-sa")], sarPolicy[sarUser("b", "other-sa")] = "allow", "deny"
	}
	gen := 0
	refused := map[*xdsClient]bool{}

	// ---- the oracle, applied to every response before it is delivered
	inspect := func(c *xdsClient, resp *discovery.DiscoveryResponse) {
		p := byClient[c]
		if !p.matching || !p.tls {
			if p.tls && p.ids != nil {
				r.Fail("c11.claim_not_refused", "", "%s claims %s/%s but its credential proves %v: the connection must be refused, yet it received a %s response", c.name, p.ns, p.sa, p.ids, shortType(resp.TypeUrl))
				return
			}
		}
		if resp.TypeUrl != v3.SecretType {
			return
		}
		for _, a := range resp.Resources {
			sec := &tlsv3.Secret{}
			if a.UnmarshalTo(sec) != nil {
				continue
			}
			key := sec.GetTlsCertificate().GetPrivateKey()
			if key == nil || len(key.GetInlineBytes())+len(key.GetInlineString()) == 0 {
				r.Probe("public_material_served")
				continue
			}
			r.Probe("key_material_served")
			material := string(key.GetInlineBytes()) + key.GetInlineString()
			if !p.tls || p.ids == nil {
				r.Fail("c11.key_to_unauthenticated_stream", "", "%s (unauthenticated) received private key material %q for %s", c.name, material, sec.Name)
				return
			}
			if !p.matching {
				r.Fail("c11.key_to_unverified_claim", "", "%s received private key material %q although its claim matches none of its credential identities", c.name, material)
				return
			}
			// independent parse of the resource name
			name := sec.Name
			rest, isKube := strings.CutPrefix(name, "kubernetes://")
			if !isKube {
				r.Fail("c11.key_for_unverified_reference", "scheme", "%s received private key material %q for %s: no reference grant exists in this run", c.name, material, name)
				return
			}
			segs := strings.Split(rest, "/")
			ns := p.ns
			if len(segs) >= 2 {
				ns = segs[0]
			}
			if ns != p.ns {
				r.Fail("c11.key_across_namespaces", "", "%s (verified namespace %s) received private key material %q for %s", c.name, p.ns, material, name)
				return
			}
			if !strings.Contains(material, "KEY "+p.ns+"/") {
				r.Fail("c11.key_across_namespaces", "content", "%s (verified namespace %s) received key material of another namespace: %q (requested %s)", c.name, p.ns, material, name)
				return
			}
			sarMu.Lock()
			last := sarLast[sarUser(p.ns, p.sa)]
			sarMu.Unlock()
			if last != "allow" {
				r.Fail("c11.key_without_authorization", strings.Join(strings.Fields(fmt.Sprint(len(segs), last == "")), ""), "%s received private key material %q for %s although the most recent SubjectAccessReview answer the control plane obtained for %s/%s was %q", c.name, material, name, p.ns, p.sa, last)
				return
			}
			// "is authorised to read": an older answer may be cached, but not without bound. 45 minutes is far above
			// any refresh interval (it does not mirror the implementation's) and must hold whatever other identities ask.
			sarMu.Lock()
			cur, since := sarPolicy[sarUser(p.ns, p.sa)], sarSince[sarUser(p.ns, p.sa)]
			sarMu.Unlock()
			if cur != "allow" && !since.IsZero() && time.Since(since) > 45*time.Minute {
				r.Fail("c11.key_long_after_revocation", "", "%s received private key material %q for %s although the API server has refused %s/%s for %v (since %s); the last answer the control plane obtained is older than that", c.name, material, name, p.ns, p.sa, time.Since(since), since.Format("15:04:05"))
				return
			}
			r.Probe("entitled_key_served")
		}
	}
	// a response is judged at the moment it is handed to the transport (it may stay parked while newer
	// SubjectAccessReview answers arrive; an in-flight older response is legitimate)
	inspected := map[*xdsClient]*discovery.DiscoveryResponse{}
	inspectNew := func() {
		for _, c := range w.clients {
			if !c.connected {
				continue
			}
			if p := c.sotw.ParkedSend(); p != nil && inspected[c] != p {
				inspected[c] = p
				inspect(c, p)
			}
		}
	}
	deliver := func(c *xdsClient) {
		inspectNew()
		w.deliverResp(c)
		inspectNew()
	}
	for _, c := range w.clients {
		w.connect(c, inst, false)
	}
	maxSteps := 15 + tp.Choose(50, "maxsteps")
	for r.Steps = 0; r.Steps < maxSteps && !r.Failed() && !tp.Exhausted(); r.Steps++ {
		var acts []string
		for ci, c := range w.clients {
			w.reapStream(c)
			if !c.connected {
				if !refused[c] {
					refused[c] = true
					r.Probe("connection_refused")
				}
				continue
			}
			if w.hasParkedSend(c) {
				acts = append(acts, fmt.Sprintf("resp:%d", ci), fmt.Sprintf("resp:%d", ci))
			}
			if w.canDeliverReq(c) {
				acts = append(acts, fmt.Sprintf("req:%d", ci), fmt.Sprintf("req:%d", ci))
			}
			acts = append(acts, fmt.Sprintf("names:%d", ci))
		}
		acts = append(acts, "sar", "sar", "rotate", "gap", "gap", "push")
		a := acts[tp.Choose(len(acts), "act")]
		tp.Note(strings.SplitN(a, ":", 2)[0])
		var ci int
		switch {
		case strings.HasPrefix(a, "resp:"):
			fmt.Sscanf(a, "resp:%d", &ci)
			deliver(w.clients[ci])
		case strings.HasPrefix(a, "req:"):
			fmt.Sscanf(a, "req:%d", &ci)
			w.deliverReq(w.clients[ci])
		case strings.HasPrefix(a, "names:"):
			fmt.Sscanf(a, "names:%d", &ci)
			c := w.clients[ci]
			n := pickNames()
			c.resubscribe(v3.SecretType, n)
			r.Logf("%s now requests %v", c.name, sortedNames(n))
		case a == "sar":
			ns := []string{"a", "b", "istio-system"}[tp.Choose(3, "sarNs")]
			sa := []string{"gw-sa", "other-sa"}[tp.Choose(2, "sarSa")]
			v := []string{"allow", "deny", "error"}[tp.Choose(3, "sarV")]
			sarMu.Lock()
			if sarPolicy[sarUser(ns, sa)] != v {
				sarSince[sarUser(ns, sa)] = time.Now()
			}
			sarPolicy[sarUser(ns, sa)] = v
			sarMu.Unlock()
			r.Fault("sar_" + v)
			r.Logf("SubjectAccessReview for %s/%s now answers %s", ns, sa, v)
		case a == "rotate":
			gen++
			ns := []string{"a", "b", "istio-system"}[tp.Choose(3, "rotNs")]
			name := []string{"s1", "s2"}[tp.Choose(2, "rotName")]
			kc := inst.fds.KubeClient().Kube()
			if tp.Bool(1, 4, "delete") {
				_ = kc.CoreV1().Secrets(ns).Delete(context.Background(), name, metav1.DeleteOptions{})
				r.Logf("secret %s/%s deleted", ns, name)
			} else {
				s := mkSecret(ns, name, gen)
				if _, err := kc.CoreV1().Secrets(ns).Update(context.Background(), s, metav1.UpdateOptions{}); err != nil {
					_, _ = kc.CoreV1().Secrets(ns).Create(context.Background(), s, metav1.CreateOptions{})
				}
				r.Logf("secret %s/%s rotated to gen%d", ns, name, gen)
			}
			synctest.Wait()
		case a == "push":
			// a forced global push (mesh config change, resync): afterwards every connected proxy has a push time newer
			// than the cache's last invalidation, so what it generates on request is cached and shared
			inst.fds.Discovery.ConfigUpdate(&model.PushRequest{Forced: true, Reason: model.NewReasonStats(model.GlobalUpdate)})
			synctest.Wait()
			w.advance(70 * time.Millisecond)
			r.Probe("global_push")
		case a == "gap":
			// also lets the authorisation cache of the credentials controller expire from time to time
			if tp.Bool(1, 3, "long") {
				if tp.Bool(1, 4, "verylong") {
					w.advance(50 * time.Minute)
					r.Probe("very_long_gap")
				} else {
					w.advance(2 * time.Minute)
				}
			} else {
				w.advance(time.Duration(1+tp.Choose(100, "ms")) * time.Millisecond)
			}
		}
		inspectNew()
		// "different privileges requested the same name on the shared cache"
		seen := map[string]map[bool]bool{}
		for _, p := range parties {
			for n := range p.c.state(v3.SecretType).names {
				if seen[n] == nil {
					seen[n] = map[bool]bool{}
				}
				seen[n][p.matching] = true
			}
		}
		for _, m := range seen {
			if len(m) == 2 {
				r.NonTriv = true
				r.Probe("same_name_requested_with_different_privileges")
				break
			}
		}
	}
	// drain: everything still parked is inspected as well
	for i := 0; i < 200 && !r.Failed(); i++ {
		progress := false
		for _, c := range w.clients {
			w.reapStream(c)
			if w.hasParkedSend(c) {
				deliver(c)
				progress = true
			} else if w.canDeliverReq(c) {
				w.deliverReq(c)
				inspectNew()
				progress = true
			}
		}
		if !progress {
			break
		}
	}
	for _, c := range w.clients {
		w.cut(c)
	}
}
