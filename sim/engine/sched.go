package engine

import (
	"sort"
	"sync"
)

// Sched is the cooperative yield scheduler: goroutines of the system (through
// simhook.Yield) and harness tasks park here under a deterministic key and are
// released one at a time by the driver.
type Sched struct {
	mu          sync.Mutex
	parked      map[string][]chan struct{}
	passthrough bool
	// Filter decides whether a (point,key) parks; nil = everything parks.
	Filter func(point, key string) bool
	// Seen counts how often each point was reached (parked or not).
	Seen map[string]int
}

func NewSched() *Sched {
	return &Sched{parked: map[string][]chan struct{}{}, Seen: map[string]int{}}
}

// Yield parks the calling goroutine under point/key until released.
// Never call it with a sync.Mutex held.
func (s *Sched) Yield(point, key string) {
	s.mu.Lock()
	s.Seen[point]++
	if s.passthrough || (s.Filter != nil && !s.Filter(point, key)) {
		s.mu.Unlock()
		return
	}
	ch := make(chan struct{})
	k := point + "|" + key
	s.parked[k] = append(s.parked[k], ch)
	s.mu.Unlock()
	<-ch
}

// Parked returns the sorted keys that have at least one parked goroutine.
func (s *Sched) Parked() []string {
	s.mu.Lock()
	defer s.mu.Unlock()
	out := make([]string, 0, len(s.parked))
	for k, v := range s.parked {
		if len(v) > 0 {
			out = append(out, k)
		}
	}
	sort.Strings(out)
	return out
}

// Release lets the oldest goroutine parked under k continue. Reports whether one existed.
func (s *Sched) Release(k string) bool {
	s.mu.Lock()
	q := s.parked[k]
	if len(q) == 0 {
		s.mu.Unlock()
		return false
	}
	ch := q[0]
	if len(q) == 1 {
		delete(s.parked, k)
	} else {
		s.parked[k] = q[1:]
	}
	s.mu.Unlock()
	close(ch)
	return true
}

// SetPassthrough(true) makes every later Yield return at once.
func (s *Sched) SetPassthrough(p bool) {
	s.mu.Lock()
	s.passthrough = p
	s.mu.Unlock()
}

// Drain switches to pass-through and releases everything parked (end of run).
func (s *Sched) Drain() {
	s.mu.Lock()
	s.passthrough = true
	var all []chan struct{}
	for k, q := range s.parked {
		all = append(all, q...)
		delete(s.parked, k)
	}
	s.mu.Unlock()
	for _, ch := range all {
		close(ch)
	}
}

func (s *Sched) SeenCount(point string) int {
	s.mu.Lock()
	defer s.mu.Unlock()
	return s.Seen[point]
}
