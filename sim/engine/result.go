package engine

import (
	"encoding/json"
	"fmt"
	"os"
	"sort"
)

// Violation describes one failed oracle.
type Violation struct {
	Class  string `json:"class"`  // stable identifier of the oracle that failed (used by shrinking and known-findings)
	Detail string `json:"detail"` // human readable, may vary while shrinking
	Step   int    `json:"step"`
	// Key identifies the specific failing input/call site for known-finding matching (stable across seeds).
	Key string `json:"key,omitempty"`
}

// RunResult is what a worker reports for one simulated run.
type RunResult struct {
	Check        string         `json:"check"`
	Seed         uint64         `json:"seed"`
	Run          int            `json:"run"`
	Steps        int            `json:"steps"`
	SimTimeNs    int64          `json:"sim_ns"`
	Faults       map[string]int `json:"faults,omitempty"`
	Probes       map[string]int `json:"probes,omitempty"`
	Sig          string         `json:"sig"`
	NonTrivial   bool           `json:"nontrivial"`
	States       []string       `json:"states,omitempty"` // abstract state hashes reached (bounded)
	Inconclusive string         `json:"inconclusive,omitempty"`
	Violation    *Violation     `json:"violation,omitempty"`
	ReplayPath   string         `json:"replay,omitempty"`
	TapeLen      int            `json:"tape_len"`
	Sample       []string       `json:"sample,omitempty"` // trace (only when requested)
	Digest       string         `json:"digest,omitempty"` // canonical observation digest (determinism self-test)
}

// ReplayFile is the on-disk reproduction of a violation.
type ReplayFile struct {
	Property  string            `json:"property"`
	Check     string            `json:"check"`
	Seed      uint64            `json:"seed"`
	Run       int               `json:"run"`
	Config    map[string]string `json:"config,omitempty"`
	Tape      []int             `json:"tape"`
	Labels    []string          `json:"labels,omitempty"`
	Violation *Violation        `json:"violation"`
	Trace     []string          `json:"trace,omitempty"`
	Minimised bool              `json:"minimised"`
}

func WriteReplay(path string, rf *ReplayFile) error {
	b, err := json.MarshalIndent(rf, "", " ")
	if err != nil {
		return err
	}
	return os.WriteFile(path, b, 0o644)
}

func ReadReplay(path string) (*ReplayFile, error) {
	b, err := os.ReadFile(path)
	if err != nil {
		return nil, err
	}
	rf := &ReplayFile{}
	if err := json.Unmarshal(b, rf); err != nil {
		return nil, err
	}
	return rf, nil
}

// Run is the per-run context handed to a check: tape, counters, trace.
type Run struct {
	T      *Tape
	Faults map[string]int
	Probes map[string]int
	Trace  []string
	States map[string]struct{}
	Steps  int
	Viol   *Violation
	// KeepTrace: record the full trace (replay / sample runs); otherwise only a bounded tail is kept.
	KeepTrace    bool
	NonTriv      bool
	Inconclusive string
	Digest       string
	Config       map[string]string
}

func NewRun(t *Tape) *Run {
	return &Run{T: t, Faults: map[string]int{}, Probes: map[string]int{}, States: map[string]struct{}{}, Config: map[string]string{}}
}

const traceTail = 400

func (r *Run) Logf(format string, a ...any) {
	s := fmt.Sprintf(format, a...)
	if !r.KeepTrace && len(r.Trace) >= 2*traceTail {
		r.Trace = append(r.Trace[:0], r.Trace[traceTail:]...)
	}
	r.Trace = append(r.Trace, fmt.Sprintf("%04d %s", r.Steps, s))
}

func (r *Run) Fault(kind string) { r.Faults[kind]++ }
func (r *Run) Probe(name string) { r.Probes[name]++ }
func (r *Run) State(h string) {
	if len(r.States) < 4096 {
		r.States[h] = struct{}{}
	}
}

// Fail records the first violation of the run.
func (r *Run) Fail(class, key, format string, a ...any) {
	if r.Viol != nil {
		return
	}
	r.Viol = &Violation{Class: class, Key: key, Detail: fmt.Sprintf(format, a...), Step: r.Steps}
	r.Logf("VIOLATION %s [%s]: %s", class, key, r.Viol.Detail)
}

func (r *Run) Failed() bool { return r.Viol != nil }

func (r *Run) StateList() []string {
	out := make([]string, 0, len(r.States))
	for k := range r.States {
		out = append(out, k)
	}
	sort.Strings(out)
	return out
}
