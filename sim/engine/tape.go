// Package engine is the deterministic-simulation core shared by all checks:
// the choice tape (one integer decides everything), the cooperative yield
// scheduler for parked tasks, and the result / replay data types.
package engine

import (
	"fmt"
	"hash/fnv"
	"io"
)

// SplitMix64 is the only PRNG used by the simulator.
type SplitMix64 struct{ s uint64 }

func NewSplitMix64(seed uint64) *SplitMix64 { return &SplitMix64{s: seed} }

func (r *SplitMix64) Next() uint64 {
	r.s += 0x9e3779b97f4a7c15
	z := r.s
	z = (z ^ (z >> 30)) * 0xbf58476d1ce4e5b9
	z = (z ^ (z >> 27)) * 0x94d049bb133111eb
	return z ^ (z >> 31)
}

// Mix derives the per-run seed from the batch seed and the run number.
func Mix(seed uint64, run uint64) uint64 {
	r := NewSplitMix64(seed ^ (run+1)*0xd1342543de82ef95)
	r.Next()
	return r.Next()
}

// Choice is one recorded decision.
type Choice struct {
	L string `json:"l"` // label (informational; replay does not depend on it)
	N int    `json:"n"`
	V int    `json:"v"`
}

// Tape is the single source of every decision in a run. In generate mode values
// come from the PRNG; in replay mode they come from a list of integers. The
// interpreter is total: any list is valid (values are reduced mod n, an exhausted
// list answers 0), which is what makes shrinking possible.
type Tape struct {
	rng      *SplitMix64
	replay   []int
	isReplay bool
	pos      int
	Rec      []Choice
	sig      uint64
	// Limit (generate mode): after this many choices Exhausted() reports true so
	// the driver winds down. 0 = no limit.
	Limit int
	// Log, when set, receives every value as it is chosen (so a crashed run leaves its tape behind).
	Log io.Writer
}

func NewTape(seed uint64) *Tape {
	return &Tape{rng: NewSplitMix64(seed), sig: 1469598103934665603}
}

func NewReplayTape(values []int) *Tape {
	return &Tape{replay: values, isReplay: true, sig: 1469598103934665603}
}

// Exhausted reports that a replayed tape has no values left (every further
// choice answers 0); drivers use it to wind down early.
func (t *Tape) Exhausted() bool {
	if t.isReplay {
		return t.pos >= len(t.replay)
	}
	return t.Limit > 0 && t.pos >= t.Limit
}

func (t *Tape) IsReplay() bool { return t.isReplay }

// Choose returns a value in [0,n). n<=1 returns 0 without consuming the tape.
func (t *Tape) Choose(n int, label string) int {
	if n <= 1 {
		return 0
	}
	var v int
	if t.isReplay {
		if t.pos < len(t.replay) {
			v = t.replay[t.pos] % n
			if v < 0 {
				v += n
			}
		}
	} else {
		v = int(t.rng.Next() % uint64(n))
	}
	t.pos++
	if t.Log != nil {
		fmt.Fprintf(t.Log, "%d\n", v)
	}
	t.Rec = append(t.Rec, Choice{L: label, N: n, V: v})
	return v
}

// Bool is true with probability num/den.
func (t *Tape) Bool(num, den int, label string) bool {
	// value 0 must be the "simple" answer (false) so that shrinking removes faults.
	return t.Choose(den, label) >= den-num
}

// Pick chooses one of the given strings.
func (t *Tape) Pick(label string, opts ...string) string {
	return opts[t.Choose(len(opts), label)]
}

// Values returns the recorded values (a replayable tape).
func (t *Tape) Values() []int {
	out := make([]int, len(t.Rec))
	for i, c := range t.Rec {
		out[i] = c.V
	}
	return out
}

// Note folds an action label into the schedule signature (never draws).
func (t *Tape) Note(action string) {
	h := fnv.New64a()
	h.Write([]byte(action))
	t.sig = (t.sig ^ h.Sum64()) * 1099511628211
}

func (t *Tape) Signature() string { return fmt.Sprintf("%016x", t.sig) }
